#!/bin/sh
# Offline setup: pre-builds the Kani harness crates' dependencies (from /repo's current tree) so that
# the first check does not pay for it. Safe to re-run; everything lands in /verif/.target (git-ignored).
set -e
cd "$(dirname "$0")"
export CARGO_NET_OFFLINE=true
python3 lib/manifest_gen.py >/dev/null || true
exec python3 lib/setup.py
