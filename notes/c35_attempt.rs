//! C35 — credential helper messages cannot be forged (writer half symbolically; decode on concrete boundary cases).
use crate::util::FixedBuf;
use bstr::{BString, ByteSlice};
use gix_credentials::protocol::Context;

pub const KEYS: [&str; 6] = ["url", "path", "protocol", "host", "username", "password"];

/// A context with exactly the field `which` (index into KEYS) set to `value` (ASCII).
pub fn ctx_with(which: usize, value: &[u8]) -> Context {
    let s = || String::from_utf8(value.to_vec()).expect("ascii");
    let mut c = Context::default();
    match which {
        0 => c.url = Some(BString::from(value)),
        1 => c.path = Some(BString::from(value)),
        2 => c.protocol = Some(s()),
        3 => c.host = Some(s()),
        4 => c.username = Some(s()),
        _ => c.password = Some(s()),
    }
    c
}

#[cfg(test)]
mod tests {
    use super::*;
    /// Native demonstration for finding C35-F7.
    #[test]
    fn trailing_cr_is_lost_natively() {
        let c = ctx_with(5, b"a\r");
        let bytes = c.to_bstring();
        let back = Context::from_bytes(&bytes).unwrap();
        assert_ne!(back.password, c.password, "if this fails the finding is gone");
    }
}

#[cfg(kani)]
pub mod proofs {
    use super::*;

    /// Writer half, one field at a time: a value is written iff it contains neither LF nor NUL, and then the
    /// message is exactly `key=value\n` - one line, so nothing in the value can start another attribute.
    pub fn write_one<const W: usize, const N: usize, const OUT: usize>() {
        let value: [u8; N] = kani::any();
        let mut i = 0;
        let mut bad = false;
        while i < N {
            kani::assume(value[i] < 0x80);
            bad |= value[i] == b'\n' || value[i] == 0;
            i += 1;
        }
        let c = ctx_with(W, &value);
        let mut out = FixedBuf::<OUT>::new();
        let res = c.write_to(&mut out);
        match res {
            Ok(()) => {
                assert!(!bad, "a value with LF or NUL must be refused");
                let key = KEYS[W].as_bytes();
                assert!(!out.overflow && out.len == key.len() + 1 + N + 1, "exactly key=value LF");
                let k: usize = kani::any();
                kani::assume(k < N);
                assert!(out.data[key.len()] == b'=' && out.data[key.len() + 1 + k] == value[k] && out.data[out.len - 1] == b'\n');
                let j: usize = kani::any();
                kani::assume(j < out.len - 1);
                assert!(out.data[j] != b'\n', "no line break before the terminating one");
                kani::cover!(true, "written");
            }
            Err(e) => {
                std::mem::forget(e);
                assert!(bad, "only LF/NUL are a reason to refuse");
                assert!(out.len == 0, "nothing of a refused value reaches the helper");
                kani::cover!(true, "refused");
            }
        }
        std::mem::forget(c);
    }
    macro_rules! w {
        ($($name:ident = ($w:literal, $n:literal, $out:literal)),* $(,)?) => {$(
            #[kani::proof]
            #[kani::unwind(12)]
            #[kani::stub(alloc::fmt::format, crate::util::stub_format)]
            pub fn $name() { write_one::<$w, $n, $out>() }
        )*};
    }
    w!(
        c35_write_url_2 = (0, 2, 16),
        c35_write_path_2 = (1, 2, 16),
        c35_write_protocol_2 = (2, 2, 16),
        c35_write_host_2 = (3, 2, 16),
        c35_write_username_2 = (4, 2, 16),
        c35_write_password_2 = (5, 2, 16),
        c35_write_password_3 = (5, 3, 16),
    );
}
