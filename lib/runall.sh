#!/bin/sh
# Runs every registered check of the given tier (default quick) one after the other; prints exit codes and wall time.
cd "$(dirname "$0")/.."
tier=${1:-quick}
for id in $(python3 -c "import json;print(' '.join(c['property_id'] for c in json.load(open('MANIFEST.json'))['checks']))"); do
  t0=$(date +%s)
  ./check $id --tier $tier > .work/run_${tier}_$id.out 2>&1
  rc=$?
  echo "$id $tier exit=$rc wall=$(( $(date +%s) - t0 ))s $(tail -1 .work/run_${tier}_$id.out | cut -c1-160)"
done
