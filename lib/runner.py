#!/usr/bin/env python3
"""Runner for the solver-based checks in /verif.

Every check is a set of Kani proof harnesses (bounded model checking of the
compiled gitoxide code with CBMC + a SAT solver).  This module
  * regenerates the harness crate's Cargo.toml so that its path dependencies
    point at the *current working tree* of the repository (default /repo),
  * runs each harness as its own `cargo kani` process under a wall-clock and an
    address-space cap, several at a time,
  * reads Kani's structured result (--export-json) and stdout,
  * replays every counterexample natively (concrete playback) before it is
    reported,
  * writes /verif/evidence/<ID>.json.

Exit status of a check: 0 = all queries decided "holds" and all reachability
witnesses satisfied; 1 = a replayed counterexample that is not a listed known
finding (prints VIOLATION ...); 2 = inconclusive / broken (never a pass).
"""
import hashlib
import json
import os
import re
import resource
import shutil
import signal
import subprocess
import sys
import threading
import time

VERIF = os.path.dirname(os.path.dirname(os.path.abspath(__file__)))
REPO = os.environ.get("VERIF_REPO", "/repo")
TARGET_ROOT = os.path.join(VERIF, ".target")
WORK = os.path.join(VERIF, ".work")
EVIDENCE = os.path.join(VERIF, "evidence")
REPLAYS = os.path.join(VERIF, "replays")
KNOWN = os.path.join(VERIF, "known_findings.json")

TOTAL_MEM_GB = int(os.environ.get("VERIF_MEM_GB", "48"))
MAX_JOBS = int(os.environ.get("VERIF_JOBS", "12"))

ENV = dict(os.environ)
ENV["CARGO_NET_OFFLINE"] = "true"
ENV.setdefault("CARGO_TERM_COLOR", "never")
# the harness crates are built by Kani's own pinned toolchain; make sure a
# rustup override from the environment does not leak in.
ENV.pop("RUSTUP_TOOLCHAIN", None)
ENV.pop("RUSTFLAGS", None)


class Harness:
    def __init__(self, name, tier="quick", timeout=300, mem=8, covers=1, desc="",
                 inputs="", bound="", expect="pass", finding=None, extra_args=None,
                 unwind_failure_is_violation=False, thorough_timeout=None, unwindset=None, crate=None, cbmc_args=None):
        self.name = name
        self.tier = tier
        self.timeout = timeout
        self.mem = mem
        self.covers = covers
        self.desc = desc
        self.inputs = inputs
        self.bound = bound
        self.expect = expect          # "pass" | "known_finding"
        self.finding = finding        # id in known_findings.json when expect == known_finding
        self.extra_args = extra_args or []
        self.unwind_failure_is_violation = unwind_failure_is_violation
        self.thorough_timeout = thorough_timeout
        self.crate = crate            # harness crate, if different from the spec's
        self.cbmc_args = cbmc_args or []   # extra CBMC flags (e.g. --arrays-uf-always), recorded in the evidence
        # [(regex over "loop id: pretty function name", bound)]: per-loop bounds (CBMC --unwindset) that override the
        # harness-wide #[kani::unwind]; loop ids are read from the freshly compiled GOTO binary on every run.
        self.unwindset = unwindset or []

    @property
    def short(self):
        return self.name.split("::")[-1]


def log(*a):
    print(*a, file=sys.stderr, flush=True)


# --------------------------------------------------------------------------
# crate preparation


def prepare_crate(crate, dest=None):
    """(Re)generate Cargo.toml from the template so that path deps point at REPO."""
    src = os.path.join(VERIF, "harness", crate)
    d = dest or src
    tmpl = open(os.path.join(src, "Cargo.toml.in")).read()
    text = tmpl.replace("@REPO@", REPO).replace("@VERIF@", VERIF)
    p = os.path.join(d, "Cargo.toml")
    if not os.path.exists(p) or open(p).read() != text:
        with open(p, "w") as f:
            f.write(text)
    lock_src = os.path.join(REPO, "Cargo.lock")
    lock_dst = os.path.join(d, "Cargo.lock")
    # Start from the repository's lock file so that dependency versions are the
    # repository's; cargo adds the harness package and the two patched crates.
    if os.path.exists(lock_src) and not os.path.exists(lock_dst):
        shutil.copy(lock_src, lock_dst)
    pre = os.path.join(src, "pre_build.py")
    if os.path.exists(pre):
        r = subprocess.run([sys.executable, pre, REPO, d], env=ENV, capture_output=True, text=True)
        if r.returncode != 0:
            raise RuntimeError("pre_build failed for %s:\n%s\n%s" % (crate, r.stdout, r.stderr))
    return d


def target_dir(crate):
    return os.path.join(TARGET_ROOT, crate)


def _limits(mem_gb):
    def f():
        b = int(mem_gb * 1024 * 1024 * 1024)
        resource.setrlimit(resource.RLIMIT_AS, (b, b))
        os.setsid()
    return f


def _kill_group(p):
    try:
        os.killpg(p.pid, signal.SIGKILL)
    except Exception:
        pass


def run_cmd(cmd, cwd, timeout, mem_gb, logfile):
    """Run cmd in its own process group under caps. Returns (rc|None on timeout, wall, maxrss_kb)."""
    t0 = time.time()
    with open(logfile, "w") as lf:
        p = subprocess.Popen(cmd, cwd=cwd, env=ENV, stdout=lf, stderr=subprocess.STDOUT,
                             preexec_fn=_limits(mem_gb))
        # sample the peak RSS of the biggest process in the group (cbmc dominates)
        peak = [0]
        stop = [False]

        def sampler():
            while not stop[0]:
                try:
                    out = subprocess.run(["ps", "-o", "rss=", "-g", str(p.pid)], capture_output=True, text=True).stdout
                    vals = [int(x) for x in out.split() if x.isdigit()]
                    if vals:
                        peak[0] = max(peak[0], max(vals))
                except Exception:
                    pass
                time.sleep(1.0)

        th = threading.Thread(target=sampler, daemon=True)
        th.start()
        try:
            rc = p.wait(timeout=timeout)
        except subprocess.TimeoutExpired:
            _kill_group(p)
            p.wait()
            rc = None
        stop[0] = True
        _kill_group(p)
    return rc, time.time() - t0, peak[0]


# --------------------------------------------------------------------------
# one harness


def merge_cbmc_args(h, unwindset_extra):
    """`--cbmc-args` swallows the rest of the command line, so the harness' own CBMC flags and the resolved
    --unwindset (which arrives as [-Z unstable-options --cbmc-args --unwindset ...]) go into one trailing group."""
    tail = list(h.cbmc_args)
    if unwindset_extra:
        i = unwindset_extra.index("--cbmc-args")
        tail += unwindset_extra[i + 1:]
    if not tail:
        return []
    return ["-Z", "unstable-options", "--cbmc-args"] + tail


def kani_cmd(crate, h, export_json, extra=None):
    cmd = ["cargo", "kani", "--target-dir", target_dir(crate), "--harness", h.name, "--exact",
           "-Z", "unstable-options", "--export-json", export_json]
    cmd += h.extra_args
    cmd += merge_cbmc_args(h, extra)
    return cmd


def find_goto_binary(crate, h):
    base = os.path.join(target_dir(crate), "kani")
    best = None
    pat = re.compile(r"proofs\d+%s\.out$" % re.escape(h.short))
    for root, _dirs, files in os.walk(base):
        for f in files:
            if pat.search(f) and not f.endswith(".symtab.out"):
                p = os.path.join(root, f)
                if best is None or os.path.getmtime(p) > os.path.getmtime(best):
                    best = p
    return best


def resolve_unwindset(crate, cwd, h, outdir):
    """Map the harness' (regex, bound) pairs to CBMC loop ids of the current build. Returns (args, notes)."""
    logf = os.path.join(outdir, h.short + ".codegen.log")
    rc, _, _ = run_cmd(["cargo", "kani", "--target-dir", target_dir(crate), "--only-codegen", "--harness", h.name, "--exact"]
                       + h.extra_args, cwd, 1800, 24, logf)
    if rc != 0:
        raise RuntimeError("codegen for unwindset failed (rc=%s)" % rc)
    gb = find_goto_binary(crate, h)
    if not gb:
        raise RuntimeError("GOTO binary of %s not found" % h.name)
    out = subprocess.run(["goto-instrument", "--show-loops", gb], capture_output=True, text=True, env=ENV).stdout
    loops = []
    cur = None
    for line in out.splitlines():
        m = re.match(r"^Loop (\S+):$", line)
        if m:
            cur = [m.group(1), ""]
            loops.append(cur)
        elif cur is not None and "function " in line:
            cur[1] = line.strip()
    pairs, notes = [], []
    for pat, n in h.unwindset:
        hits = [l for l in loops if re.search(pat, l[0] + ": " + l[1])]
        if not hits:
            # the code may have been restructured: fall back to the harness-wide bound for whatever loops exist now
            notes.append("%s -> no loop matches in the current build (harness-wide bound applies)" % pat)
            continue
        for l in hits:
            pairs.append("%s:%d" % (l[0], n))
        notes.append("%s -> %d loop(s) bounded to %d" % (pat, len(hits), n))
    if not pairs:
        return None, notes
    return ["-Z", "unstable-options", "--cbmc-args", "--unwindset", ",".join(pairs)], notes


def classify(h, rc, logtext, js):
    """Return dict(status=..., ...). status in holds|failed|inconclusive."""
    res = {"status": "inconclusive", "reason": "", "failed_checks": [], "covers_total": 0,
           "covers_satisfied": 0, "properties": 0, "stats": {}}
    if rc is None:
        res["reason"] = "timeout after %ss" % h.timeout
        return res
    if js is None:
        # compile error, OOM kill of the driver, ...
        m = re.search(r"error(\[E\d+\])?: .*", logtext)
        res["reason"] = "no result from Kani (rc=%s): %s" % (rc, m.group(0) if m else logtext[-400:])
        return res
    try:
        vr = js["verification_results"]["results"][0]
        checks = vr.get("checks", [])
        pd = js["property_details"][0]["property_details"]
        res["properties"] = pd.get("total_properties", len(checks))
        stats = ((js.get("cbmc") or [{}])[0] or {}).get("cbmc_stats") or {}
        res["stats"] = stats
        res["duration_ms"] = vr.get("duration_ms")
    except Exception as e:  # pragma: no cover
        res["reason"] = "unreadable Kani JSON: %r" % (e,)
        return res
    covers = [c for c in checks if c.get("category") == "cover"]
    res["covers_total"] = len(covers)
    res["covers_satisfied"] = sum(1 for c in covers if c["status"] == "Satisfied")
    res["cover_descriptions"] = [(c["description"], c["status"]) for c in covers]
    failed = [c for c in checks if c["status"] in ("Failure", "Failed")]
    undet = [c for c in checks if c["status"] in ("Undetermined", "SolverError", "Error")]
    res["failed_checks"] = [
        {"description": c["description"], "function": c.get("function"),
         "location": "%s:%s" % (c.get("location", {}).get("file"), c.get("location", {}).get("line")),
         "category": c.get("category")} for c in failed]
    success = "VERIFICATION:- SUCCESSFUL" in logtext and vr.get("status") == "Success"
    if "Status: ERROR" in logtext or "CBMC failed" in logtext or "out of memory" in logtext.lower() \
            or "ran out of memory" in logtext:
        res["reason"] = "CBMC error / out of memory"
        return res
    unsupported = [c for c in failed if "not currently supported" in c["description"]
                   or "unsupported" in c["description"].lower()]
    unwind = [c for c in failed if "unwinding assertion" in c["description"]]
    if success and not failed and not undet:
        if res["covers_total"] < h.covers:
            res["reason"] = "only %d cover witnesses present, %d required" % (res["covers_total"], h.covers)
            return res
        if res["covers_satisfied"] != res["covers_total"]:
            res["reason"] = "reachability witness not satisfied: %s" % (
                [d for d, s in res["cover_descriptions"] if s != "Satisfied"],)
            return res
        res["status"] = "holds"
        return res
    if unsupported:
        res["reason"] = "unsupported construct reachable: %s" % unsupported[0]["description"]
        return res
    real = [c for c in failed if c not in unwind]
    if unwind and not real:
        if h.unwind_failure_is_violation:
            res["status"] = "failed"
            res["reason"] = "loop does not terminate within the derived bound"
            return res
        res["reason"] = "unwinding bound too small (check bug): %s" % unwind[0]["location"] \
            if isinstance(unwind[0], dict) and "location" in unwind[0] else "unwinding bound too small"
        return res
    if real:
        res["status"] = "failed"
        res["reason"] = "; ".join(sorted(set(c["description"] for c in real))[:4])
        return res
    if undet:
        res["reason"] = "undetermined checks: %s" % undet[0]["description"]
        return res
    res["reason"] = "Kani reported failure without failed checks (rc=%s)" % rc
    return res


def run_harness(crate, cwd, h, tier, outdir):
    os.makedirs(outdir, exist_ok=True)
    logf = os.path.join(outdir, h.short + ".log")
    jsf = os.path.join(outdir, h.short + ".json")
    if os.path.exists(jsf):
        os.remove(jsf)
    timeout = h.timeout
    if tier == "thorough" and h.thorough_timeout:
        timeout = h.thorough_timeout
    hh = h
    if timeout != h.timeout:
        import copy
        hh = copy.copy(h)
        hh.timeout = timeout
    extra = None
    uw_notes = []
    if hh.unwindset:
        try:
            extra, uw_notes = resolve_unwindset(crate, cwd, hh, outdir)
        except Exception as e:
            return {"status": "inconclusive", "reason": str(e), "harness": h.name, "wall_s": 0, "peak_rss_mb": 0,
                    "covers_total": 0, "covers_satisfied": 0, "properties": 0, "stats": {}, "failed_checks": [], "log": logf}
    rc, wall, rss = run_cmd(kani_cmd(crate, hh, jsf, extra), cwd, timeout, hh.mem, logf)
    logtext = open(logf, errors="replace").read()
    js = None
    if os.path.exists(jsf):
        try:
            js = json.load(open(jsf))
        except Exception:
            js = None
    res = classify(hh, rc, logtext, js)
    res.update({"harness": h.name, "wall_s": round(wall, 2), "peak_rss_mb": rss // 1024, "log": logf, "unwindset": uw_notes})
    return res


# --------------------------------------------------------------------------
# replay of counterexamples


def extract_playback_tests(text):
    """Pull the generated unit tests out of `--concrete-playback=print` output.

    Kani prints one test per failed check *and* one per satisfied cover; returns
    [(kind, description, name, source)] with the cover tests last."""
    out = []
    for m in re.finditer(r"```\s*\n(.*?)```", text, re.S):
        body = m.group(1)
        km = re.search(r"Check for `(\w+)`: (.*)", body)
        kind, desc = (km.group(1), km.group(2).strip()) if km else ("?", "")
        src = re.sub(r"^\s*///.*\n", "", body, flags=re.M).strip() + "\n"
        nm = re.search(r"fn (kani_concrete_playback_\w+)", src)
        if nm:
            out.append((kind, desc, nm.group(1), src))
    out.sort(key=lambda t: t[0] == "cover")
    seen, uniq = set(), []
    for t in out:
        if t[2] not in seen:
            seen.add(t[2])
            uniq.append(t)
    return uniq


def module_path_of(hname):
    # "c05::proofs::name" -> ("c05", "c05::proofs")
    parts = hname.split("::")
    return parts[0], "::".join(parts[:-1])


def inject_test(scratch, hname, test_src):
    top, modpath = module_path_of(hname)
    f = os.path.join(scratch, "src", top + ".rs")
    rel = "::".join(modpath.split("::")[1:])
    use = "use super::%s::*;" % rel if rel else "use super::*;"
    with open(f, "a") as fh:
        fh.write("\n#[cfg(kani)]\nmod verif_replay {\n    #![allow(unused_imports)]\n    %s\n%s\n}\n" % (use, test_src))


def scratch_crate(crate, tag):
    """A throw-away copy of the harness crate (fixed path per crate and tag so that the native build is reused)."""
    base = os.path.join(WORK, "replay", "%s-%s" % (crate, tag))
    if os.path.exists(base):
        shutil.rmtree(base)
    os.makedirs(base)
    d = os.path.join(base, crate)
    src = os.path.join(VERIF, "harness", crate)
    shutil.copytree(src, d, ignore=shutil.ignore_patterns("target", "Cargo.toml"))
    shutil.copytree(os.path.join(VERIF, "harness", "common"), os.path.join(base, "common"))
    prepare_crate(crate, d)
    return d


def drop_scratch(d):
    shutil.rmtree(os.path.dirname(d), ignore_errors=True)


def run_playback(scratch, crate, test_name, timeout=1500, release=False):
    cmd = ["cargo", "kani", "playback", "-Z", "concrete-playback", "-Z", "stubbing"]
    if release:
        cmd += ["--release"]
    cmd += ["--", test_name, "--nocapture", "--test-threads", "1"]
    logf = os.path.join(scratch, "playback%s.log" % ("-release" if release else ""))
    env_backup = ENV.get("CARGO_TARGET_DIR")
    ENV["CARGO_TARGET_DIR"] = os.path.join(TARGET_ROOT, "playback-" + crate)
    try:
        rc, wall, _ = run_cmd(cmd, scratch, timeout, 24, logf)
    finally:
        if env_backup is None:
            ENV.pop("CARGO_TARGET_DIR", None)
        else:
            ENV["CARGO_TARGET_DIR"] = env_backup
    return rc, open(logf, errors="replace").read()


def _playback_verdict(out, test_name):
    """True = the test ran and failed (violation reproduced), False = ran and passed, None = did not run."""
    if "`kani::assume` should always hold" in out:
        return False  # the concrete values violate a harness assumption: not a counterexample of the property
    m = re.search(r"test \S*%s \.\.\. (\w+)" % re.escape(test_name), out)
    if m:
        return m.group(1) == "FAILED"
    if re.search(r"running 1 test", out) and ("panicked at" in out or "test result: FAILED" in out):
        return True
    return None


def replay_counterexample(pid, crate, h, outdir):
    """Ask Kani for the concrete values of the counterexample(s), run them natively (dev profile, then release).

    Returns (record, path)."""
    scratch = scratch_crate(crate, "replay")
    logf = os.path.join(outdir, h.short + ".playback-gen.log")
    cmd = ["cargo", "kani", "--target-dir", target_dir(crate), "--harness", h.name, "--exact",
           "-Z", "concrete-playback", "--concrete-playback=print"] + h.extra_args
    extra = None
    if h.unwindset:
        try:
            extra, _ = resolve_unwindset(crate, scratch, h, outdir)
        except Exception:
            extra = None
    cmd += merge_cbmc_args(h, extra)
    rc, wall, _ = run_cmd(cmd, scratch, max(h.timeout * 2, 600), max(h.mem * 2, 24), logf)
    text = open(logf, errors="replace").read()
    tests = extract_playback_tests(text)
    failing = [t for t in tests if t[0] != "cover"]
    os.makedirs(os.path.join(REPLAYS, pid), exist_ok=True)
    rpath = os.path.join(REPLAYS, pid, h.short + ".json")
    rec = {"property_id": pid, "crate": crate, "harness": h.name, "extra_args": h.extra_args,
           "tests": [{"check_kind": k, "check": d, "test_name": n, "generated_test": src,
                      "concrete_values": re.findall(r"// (.*)\n\s*vec!\[([^\]]*)\]", src)} for k, d, n, src in failing[:4]],
           "reproduced": None}
    if not failing:
        rec["note"] = "Kani produced no concrete playback test for a failed check (rc=%s)" % rc
        json.dump(rec, open(rpath, "w"), indent=1)
        drop_scratch(scratch)
        return rec, rpath
    for t in rec["tests"]:
        inject_test(scratch, h.name, t["generated_test"])
    any_ran = False
    for t in rec["tests"]:
        rc, out = run_playback(scratch, crate, t["test_name"])
        v = _playback_verdict(out, t["test_name"])
        t["native_dev"] = v
        t["native_dev_tail"] = out[-2500:]
        if v is not None:
            any_ran = True
        if v:
            rc2, out2 = run_playback(scratch, crate, t["test_name"], release=True)
            t["native_release"] = _playback_verdict(out2, t["test_name"])
            rec["reproduced"] = True
            rec["concrete_values"] = t["concrete_values"]
            rec["failed_check"] = t["check"]
            break
    if rec["reproduced"] is None:
        if any_ran:
            rec["reproduced"] = False
        else:
            rec["note"] = "native playback did not run (build problem?)"
    json.dump(rec, open(rpath, "w"), indent=1)
    drop_scratch(scratch)
    return rec, rpath


def replay_file(path):
    rec = json.load(open(path))
    crate = rec["crate"]
    if rec.get("test_filter"):
        # a native demonstration test of the harness crate (known findings, non-termination)
        cwd = prepare_crate(crate)
        env = dict(ENV)
        env["CARGO_TARGET_DIR"] = os.path.join(TARGET_ROOT, "native")
        p = subprocess.run(["cargo", "test", "--offline", "--lib", rec["test_filter"], "--", "--nocapture", "--include-ignored"],
                           cwd=cwd, env=env, capture_output=True, text=True, timeout=1800)
        out = p.stdout + p.stderr
        print(out[-3000:])
        ran = re.search(r"running [1-9]\d* tests?", out) is not None
        if not ran:
            print("REPLAY: could not run")
            return 2
        if "test result: FAILED" in out:
            print("REPLAY: violation reproduced natively (property=%s harness=%s input=%s)" % (rec["property_id"], rec["harness"], rec.get("input")))
            return 1
        print("REPLAY: the stored demonstration no longer fails")
        return 0
    scratch = scratch_crate(crate, "manual")
    tests = rec.get("tests") or []
    for t in tests:
        inject_test(scratch, rec["harness"], t["generated_test"])
    verdict = None
    for t in tests:
        rc, out = run_playback(scratch, crate, t["test_name"])
        v = _playback_verdict(out, t["test_name"])
        print(out[-3000:])
        if v:
            verdict = True
            print("REPLAY: violation reproduced natively (property=%s harness=%s check=%s values=%s)" % (
                rec["property_id"], rec["harness"], t["check"], t["concrete_values"]))
            break
        if v is False and verdict is None:
            verdict = False
    drop_scratch(scratch)
    if verdict:
        return 1
    if verdict is None:
        print("REPLAY: could not run")
        return 2
    print("REPLAY: the stored counterexample no longer fails")
    return 0


# --------------------------------------------------------------------------
# known findings


def make_native_replay(crate, test_filter, input_desc):
    """Fallback replay for a harness whose counterexample Kani cannot turn into a playback test (out of memory while
    building the trace): a native test of the harness crate that exercises the harness' input class and FAILS while the
    defect is present. Returns a hook (pid, harness, result) -> (reproduced, path)."""
    def hook(pid, h, r):
        cwd = prepare_crate(crate)
        env = dict(ENV)
        env["CARGO_TARGET_DIR"] = os.path.join(TARGET_ROOT, "native")
        p = subprocess.run(["cargo", "test", "--offline", "--lib", test_filter, "--", "--nocapture", "--ignored"], cwd=cwd, env=env,
                           capture_output=True, text=True, timeout=1800)
        out = p.stdout + p.stderr
        ran = re.search(r"running [1-9]\d* tests?", out) is not None
        failed = ran and "test result: FAILED" in out
        os.makedirs(os.path.join(REPLAYS, pid), exist_ok=True)
        rpath = os.path.join(REPLAYS, pid, h.short + ".json")
        json.dump({"property_id": pid, "crate": crate, "harness": h.name, "kind": "native demonstration",
                   "native_test": "cargo test --lib %s -- --ignored (harness/%s)" % (test_filter, crate), "test_filter": test_filter,
                   "input": input_desc,
                   "reproduced": bool(failed), "tail": out[-1500:]}, open(rpath, "w"), indent=1)
        return (True if failed else (False if ran else None)), rpath
    return hook


def load_known():
    if not os.path.exists(KNOWN):
        return {"findings": [], "fixed": []}
    return json.load(open(KNOWN))


# --------------------------------------------------------------------------
# whole check


def schedule(jobs, fn):
    """Run fn(job) for all jobs, bounded by MAX_JOBS and the sum of memory caps."""
    results = {}
    lock = threading.Condition()
    state = {"mem": 0, "n": 0}
    pending = sorted(jobs, key=lambda j: -j.timeout)  # longest first

    def worker(j):
        try:
            r = fn(j)
        except Exception as e:  # pragma: no cover
            r = {"status": "inconclusive", "reason": "runner exception: %r" % (e,), "harness": j.name,
                 "wall_s": 0, "peak_rss_mb": 0, "covers_total": 0, "covers_satisfied": 0,
                 "properties": 0, "stats": {}, "failed_checks": []}
        with lock:
            results[j.name] = r
            state["mem"] -= j.mem
            state["n"] -= 1
            lock.notify_all()
        log("  [%s] %-44s %7.1fs %6d MB  %s" % (r["status"], j.short, r["wall_s"], r["peak_rss_mb"], r.get("reason", "")[:150]))

    threads = []
    with lock:
        while pending:
            started = False
            for j in list(pending):
                if state["n"] < MAX_JOBS and (state["mem"] + j.mem <= TOTAL_MEM_GB or state["n"] == 0):
                    pending.remove(j)
                    state["mem"] += j.mem
                    state["n"] += 1
                    t = threading.Thread(target=worker, args=(j,))
                    t.start()
                    threads.append(t)
                    started = True
            if pending and not started:
                lock.wait()
            elif pending:
                lock.wait(timeout=0.05)
    for t in threads:
        t.join()
    return results


def clean_old_outputs(crate):
    """Kani writes one output directory per distinct argument set; drop old ones to bound disk use."""
    base = os.path.join(target_dir(crate), "kani", "x86_64-unknown-linux-gnu", "debug", "build", crate)
    if not os.path.isdir(base):
        return
    now = time.time()
    for d in os.listdir(base):
        p = os.path.join(base, d)
        try:
            if now - os.path.getmtime(p) > 6 * 3600:
                shutil.rmtree(p, ignore_errors=True)
        except OSError:
            pass


def _oracle_validation():
    p = os.path.join(WORK, "oracle_validation.json")
    try:
        return json.load(open(p))
    except Exception:
        return "not run in this workspace (setup.sh runs the native model-vs-git tests)"


def run_check(spec, tier, seed):
    pid = spec["id"]
    crate = spec["crate"]
    t0 = time.time()
    outdir = os.path.join(WORK, "logs", pid)
    if os.path.exists(outdir):
        shutil.rmtree(outdir)
    os.makedirs(outdir, exist_ok=True)
    os.makedirs(EVIDENCE, exist_ok=True)
    known = load_known()
    known_for = {k["id"]: k for k in known.get("findings", []) if k["property"] == pid}

    harnesses = [h for h in spec["harnesses"] if h.tier == "quick" or tier == "thorough"]
    problems = []
    crate_of = lambda h: h.crate or crate
    cwds = {}
    results = {}
    for c in sorted({crate_of(h) for h in harnesses}):
        try:
            cwds[c] = prepare_crate(c)
        except Exception as e:
            problems.append(str(e))
            continue
        clean_old_outputs(c)
        # warm-up build: dependencies are compiled once, serially, with the first harness of the crate.
        first = [h for h in harnesses if crate_of(h) == c][0]
        log("[%s] building %s against %s ..." % (pid, c, REPO))
        logf = os.path.join(outdir, "_build_%s.log" % c)
        rc, wall, _ = run_cmd(["cargo", "kani", "--target-dir", target_dir(c), "--only-codegen",
                               "--harness", first.name, "--exact"] + first.extra_args, cwds[c], 3000, 24, logf)
        if rc != 0:
            txt = open(logf, errors="replace").read()
            errs = re.findall(r"^error.*$", txt, re.M)
            problems.append("harness crate %s does not build against the current tree (rc=%s): %s" % (c, rc, errs[:3] or txt[-600:]))
            cwds.pop(c)
        else:
            log("[%s] build of %s ok in %.0fs" % (pid, c, wall))
    runnable = [h for h in harnesses if crate_of(h) in cwds]
    if runnable:
        log("[%s] running %d solver queries (tier %s)" % (pid, len(runnable), tier))
        results = schedule(runnable, lambda h: run_harness(crate_of(h), cwds[crate_of(h)], h, tier, outdir))

    violations = []
    unreplayed = []
    known_seen = []
    inconclusive = []
    holds = 0
    for h in harnesses:
        r = results.get(h.name)
        if r is None:
            continue
        if r["status"] == "holds":
            holds += 1
            continue
        if r["status"] == "inconclusive":
            inconclusive.append((h, r))
            continue
        # failed: replay first. Once one violation of this property has been reproduced natively the verdict of the
        # check is settled (exit 1); further counterexamples are listed but not replayed (each replay costs a Kani run).
        if violations and h.expect != "known_finding":
            r["replay"] = {"skipped": "another counterexample of this check was already reproduced natively"}
            unreplayed.append((h, r))
            continue
        log("[%s] counterexample in %s: %s -- replaying natively" % (pid, h.short, r["reason"]))
        hook = spec.get("nonterm_replay")
        if h.unwind_failure_is_violation and hook and "does not terminate" in r["reason"]:
            # non-termination has no finite counterexample to play back (a generated test would simply hang):
            # the spec's own native demonstration, run under a time limit, is the replay.
            ok, rpath = hook(pid, h, r)
            rec = {"reproduced": ok}
            r["replay"] = {"path": rpath, "reproduced": ok}
        else:
            fallback = (spec.get("native_replay") or {}).get(h.short)
            rec = {"reproduced": None}
            if fallback and h.expect == "known_finding":
                # a recorded finding has its own native demonstration: cheaper than asking Kani for a playback test
                ok, rpath = fallback(pid, h, r)
                rec = {"reproduced": ok}
                r["replay"] = {"path": rpath, "reproduced": ok, "via": "native demonstration test of the harness crate"}
            if not rec.get("reproduced"):
                rec, rpath = replay_counterexample(pid, crate_of(h), h, outdir)
                r["replay"] = {"path": rpath, "reproduced": rec.get("reproduced"), "values": rec.get("concrete_values")}
            if rec.get("reproduced") is None and fallback and h.expect != "known_finding":
                # Kani could not produce a playback test (typically: out of memory while building the trace).
                # The spec names a native test of the harness crate that exercises this harness' input class.
                ok, rpath = fallback(pid, h, r)
                rec = {"reproduced": ok}
                r["replay"] = {"path": rpath, "reproduced": ok, "via": "native demonstration test of the harness crate"}
        if rec.get("reproduced"):
            if h.expect == "known_finding" and h.finding in known_for:
                known_seen.append((h, known_for[h.finding], rpath))
            else:
                violations.append((h, r, rpath))
        else:
            r["reason"] += " | counterexample did NOT reproduce natively (encoding/stub problem?)"
            inconclusive.append((h, r))

    wall = time.time() - t0
    # evidence
    samples = []
    solver_s = 0.0
    symex_s = 0.0
    props = 0
    nontrivial = 0
    for h in harnesses:
        r = results.get(h.name)
        if not r:
            continue
        st = r.get("stats") or {}
        solver_s += float(st.get("runtime_decision_procedure_s", 0) or 0)
        symex_s += float(st.get("runtime_symex_s", 0) or 0)
        props += r.get("properties") or 0
        if r["status"] == "holds" and r["covers_total"] >= max(1, h.covers) and r["covers_satisfied"] == r["covers_total"]:
            nontrivial += 1
        samples.append({
            "harness": h.name, "what": h.desc, "symbolic_inputs": h.inputs, "bound": h.bound,
            "verdict": r["status"], "reason": r.get("reason", ""),
            "cbmc_properties": r.get("properties") or 0,
            "reachability_witnesses": "%d/%d" % (r["covers_satisfied"], r["covers_total"]),
            "vccs": st.get("vccs_generated"), "vccs_after_simplification": st.get("vccs_remaining"),
            "program_steps": st.get("size_program_expression"),
            "symex_s": st.get("runtime_symex_s"), "solver_s": st.get("runtime_decision_procedure_s"),
            "wall_s": r["wall_s"], "peak_rss_mb": r["peak_rss_mb"],
            "replay": r.get("replay"),
            "per_loop_bounds": r.get("unwindset") or [],
            "cbmc_flags": h.cbmc_args,
        })
    ev = {
        "property_id": pid,
        "tier": tier,
        "seed": seed,
        "level": spec.get("level", "model_checking"),
        "coverage": {
            "evaluations": len(results),
            "distinct_nontrivial": nontrivial,
            "rule": "one evaluation = one SAT query: a Kani proof harness (real compiled code + symbolic inputs of one concrete "
                    "shape/length) unrolled by CBMC and decided by CaDiCaL for ALL input values of that shape. Distinct: harness "
                    "instances differ in function or input shape. Non-trivial: verdict 'holds' AND every kani::cover! reachability "
                    "witness of the harness was SATISFIED (the assertion is reached on the interesting paths).",
            "samples": samples,
            "obligations": props,
            "discharged": sum((s["cbmc_properties"] or 0) for s in samples if s["verdict"] == "holds"),
            "checker_cmd": "cargo kani --harness <name> --exact  (Kani 0.68.0, CBMC 6.11.0, CaDiCaL), in /verif/harness/{%s}" % ",".join(sorted({crate_of(h) for h in harnesses})),
            "trusted_base": spec.get("trusted_base", []) + [
                "Kani 0.68.0 / CBMC 6.11.0 / CaDiCaL and their model of Rust (dev profile, Kani's pinned nightly)",
                "vendored memchr 2.7.4 and faster-hex 0.9.0 with x86_64 SIMD paths cfg'd out under Kani (portable fallbacks verified instead)",
            ],
            "explanation": spec.get("explanation", ""),
            "exhaustive": False,
            "functions_encoded": spec.get("functions", []),
            "bounds": spec.get("bounds", ""),
            "outside_claim": spec.get("outside", []),
            "stubs": spec.get("stubs", []),
            "solver_time_s": round(solver_s, 2),
            "symex_time_s": round(symex_s, 2),
            "repo": REPO,
            "known_findings_seen": [k["id"] for _, k, _ in known_seen],
            "inconclusive": [{"harness": h.name, "reason": r["reason"]} for h, r in inconclusive],
            "further_counterexamples_not_replayed": [{"harness": h.name, "reason": r["reason"]} for h, r in unreplayed],
            "problems": problems,
            "oracle_validation": _oracle_validation(),
        },
        "assumptions": spec.get("assumptions", []),
        "wall_s": round(wall, 2),
        "violations": len(violations),
    }
    with open(os.path.join(EVIDENCE, pid + ".json"), "w") as f:
        json.dump(ev, f, indent=1)

    for h, k, rpath in known_seen:
        print("KNOWN-FINDING: property=%s %s (harness %s, replay %s)" % (pid, k["what"], h.short, rpath))
    for h, r in unreplayed:
        print("  also failed (not replayed): %s: %s" % (h.name, r["reason"]))
    for h, r, rpath in violations:
        print("VIOLATION property=%s replay=%s" % (pid, rpath))
        print("  harness=%s: %s" % (h.name, r["reason"]))
        if r.get("replay", {}).get("values"):
            print("  concrete values: %s" % (r["replay"]["values"][:8],))
    sys.stdout.flush()
    print("[%s] tier=%s queries=%d holds=%d violations=%d known=%d inconclusive=%d solver=%.1fs wall=%.0fs" % (
        pid, tier, len(results), holds, len(violations), len(known_seen), len(inconclusive) + len(problems), solver_s, wall))
    if violations:
        return 1
    if inconclusive or problems or not results:
        for h, r in inconclusive:
            print("INCONCLUSIVE %s: %s" % (h.name, r["reason"]))
        for p in problems:
            print("PROBLEM: %s" % p)
        return 2
    return 0
