#!/usr/bin/env python3
"""Assembles DESIGN.md from DESIGN_head.md + the design-phase measurement table + DESIGN_tail.md, filling in the
not-applicable table (lib/na_rows.md) and the seeded-changes table (from seeded/*/meta.json + result.json)."""
import json, os, glob
V = os.path.dirname(os.path.dirname(os.path.abspath(__file__)))
head = open(os.path.join(V, "DESIGN_head.md")).read()
sec4 = open(os.path.join(V, "lib", "design_sec4.md")).read()
tail = open(os.path.join(V, "DESIGN_tail.md")).read()
na = open(os.path.join(V, "lib", "na_rows.md")).read().strip()
rows = ["| seeded change | property | what it breaks / what it needs | check result |", "|---|---|---|---|"]
for d in sorted(glob.glob(os.path.join(V, "seeded", "*"))):
    mp = os.path.join(d, "meta.json")
    if not os.path.exists(mp):
        continue
    m = json.load(open(mp))
    rp = os.path.join(d, "result.json")
    res = json.load(open(rp)) if os.path.exists(rp) else []
    if res:
        parts = []
        for r in res:
            lines = [l for l in r.get("lines", []) if l.startswith("VIOLATION")]
            parts.append("%s %s%s: %s" % (r["check"], r["tier"], (" --only " + r["only"]) if r.get("only") else "",
                                          ("**caught** (exit 1, %d replayed violation(s))" % len(lines)) if r["detected"] else "not caught (exit %d)" % r["exit"]))
        verdict = "; ".join(parts)
    else:
        verdict = "not run"
    note = m.get("verif_note", "")
    rows.append("| `%s` | %s | %s — needs: %s | %s%s |" % (os.path.basename(d), m.get("property"), m.get("what_breaks_short", m.get("what_breaks", ""))[:260].replace("|", "/").replace("\n", " "),
                                                   m.get("needs_short", m.get("needs_to_manifest", ""))[:200].replace("|", "/").replace("\n", " "), verdict, (" — " + note) if note else ""))
if len(rows) == 2:
    rows.append("| (none kept yet) | | | |")
out = head.rstrip() + "\n\n" + sec4.rstrip() + "\n\n" + tail.replace("@NA_ROWS@", na).replace("@SEEDED_TABLE@", "\n".join(rows))
open(os.path.join(V, "DESIGN.md"), "w").write(out)
print("DESIGN.md written: %d lines" % out.count("\n"))
