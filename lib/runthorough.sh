#!/bin/sh
# development aid: run only the thorough-only harnesses of every check, one check after the other
cd "$(dirname "$0")/.."
for id in $(python3 -c "import json;print(' '.join(c['property_id'] for c in json.load(open('MANIFEST.json'))['checks']))"); do
  t0=$(date +%s)
  ./check $id --tier thorough --thorough-only > .work/run_thoroughonly_$id.out 2>&1
  rc=$?
  echo "$id thorough-only exit=$rc wall=$(( $(date +%s) - t0 ))s"; grep -E "^\s+\[(inconclusive|failed)\]" .work/run_thoroughonly_$id.out | cut -c1-200
done
