from runner import Harness as H

P = "c32::proofs::"
STUB = ["-Z", "stubbing"]
hs = []
for a, b, n, dst in [(1, 1, 1, True), (1, 1, 1, False), (1, 1, 2, True), (1, 1, 3, True), (2, 1, 2, True), (1, 2, 2, True), (0, 1, 2, True), (1, 0, 2, True), (0, 0, 2, True), (2, 2, 3, True), (2, 1, 4, True)]:
    name = "c32_glob_%d_%d_%d" % (a, b, n) + ("" if dst else "_nodst")
    big = (a, b, n) in [(2, 2, 3), (2, 1, 4)]
    hs.append(H(P + name, tier="thorough" if big else "quick", timeout=900, mem=10, covers=2, extra_args=STUB, thorough_timeout=2400,
                desc="one glob fetch spec <a>*<b>%s against one remote ref: same match verdict and destination as git's match_name_with_pattern; no panic" % (":x*<d>" if dst else " (no destination)"),
                inputs="a: %d bytes, b: %d bytes, ref name: %d bytes, d: 1 byte - all values without '*'%s" % (a, b, n, "; name shorter than prefix+suffix (overlap case)" if n < a + b else ""),
                bound="unwind 8"))

SPEC = {
    "id": "C32",
    "crate": "h-object",
    "harnesses": hs,
    "functions": ["gix_refspec::match_group::util::{Matcher::from, Matcher::matches_lhs, Needle::from, Needle::matches, Needle::to_bstr_replace} (via a guarded forwarder that builds the one-spec matcher exactly as match_remotes() does)"],
    "bounds": "one glob spec with prefix/suffix of <= 2 bytes each, ref names <= 4 bytes, all byte values; includes every name shorter than prefix+suffix",
    "outside": ["MatchGroup::match_remotes bookkeeping over several specs (negative specs, validation, de-duplication: BTreeSet/Vec sorting)", "non-glob sources: full names, object ids and partial names (tried: a 2-byte partial name against one expansion ran out of memory at 24 GB - expand_partial_name builds each candidate in a BString)", "refspec parsing", "longer names"],
    "stubs": ["alloc::fmt::format -> empty String"],
    "assumptions": ["model_match_name_with_pattern is git's remote.c function (unit-tested on documented examples)"],
    "manifest": {
        "text": "For every glob pattern and every ref name within the bound - in particular names shorter than prefix plus suffix, where the two overlap - the solver shows that gitoxide's glob matcher gives git's verdict and builds git's destination name, without panicking. The suite only matches well-formed fixture refs.",
        "note": "Trusted: Kani/CBMC/CaDiCaL; transcription of match_name_with_pattern; only the per-spec glob kernel is covered (multi-spec bookkeeping outside).",
    },
    "explanation": "Differential bounded model checking of gix-refspec's glob matcher against git's match_name_with_pattern.",
}
