from runner import Harness as H

P = "c43::proofs::"
STUB = ["-Z", "stubbing"]
CFG = "digest: all 7 attribute combinations; core.autocrlf x core.eol: all 9"
hs = [
    H(P + "c43_stats_3", timeout=600, mem=8, covers=1, desc="Stats::from_bytes / is_binary == git gather_stats / convert_is_binary", inputs="all contents of 3 bytes", bound="unwind 5"),
    H(P + "c43_stats_5", timeout=900, mem=10, covers=1, desc="Stats::from_bytes / is_binary == git gather_stats / convert_is_binary", inputs="all contents of 5 bytes", bound="unwind 7"),
    H(P + "c43_stats_ctrl_z", timeout=600, mem=8, covers=1,
      desc="contents ending in ^Z (0x1a): git does not count the trailing EOF character as non-printable", inputs="all contents of 3 bytes ending in ^Z", bound="unwind 5"),
]
for n, ib, tier in [(1, 0, "quick"), (2, 0, "quick"), (3, 0, "quick"), (4, 0, "thorough"), (3, 2, "thorough"), (2, 3, "quick")]:
    name = "c43_to_git_%d" % n + ("_ib%d" % ib if ib else "")
    hs.append(H(P + name, tier=tier, timeout=1200, mem=12, covers=3, extra_args=STUB, thorough_timeout=3000,
                desc="eol::convert_to_git == git crlf_to_git: unchanged / converted bytes / safecrlf refusal",
                inputs="all contents of %d bytes; %s; index blob: %s; safecrlf off/warn/true" % (n, CFG, ("all blobs of %d bytes" % ib) if ib else "absent"),
                bound="unwind %d" % (n + 3 if not ib else 6)))
for n, tier in [(1, "quick"), (2, "quick"), (3, "thorough")]:
    hs.append(H(P + "c43_to_worktree_%d" % n, tier=tier, timeout=1200 if n < 3 else 3000, mem=12 if n < 3 else 28, covers=2, thorough_timeout=3000,
                desc="eol::convert_to_worktree == git crlf_to_worktree: unchanged / converted bytes", inputs="all contents of %d bytes; %s" % (n, CFG), bound="unwind %d" % (n + 3)))

SPEC = {
    "id": "C43",
    "crate": "h-object",
    "harnesses": hs,
    "functions": ["gix_filter::eol::Stats::{from_bytes,is_binary,will_convert_lf_to_crlf}", "gix_filter::eol::{convert_to_git,convert_to_worktree}",
                  "AttributesDigest::{to_eol,is_auto_text}", "Configuration::to_eol"],
    "bounds": "contents <= 3 bytes (4 thorough; statistics 5) over all 256 byte values; index blobs <= 3 bytes; every attribute digest, autocrlf, eol and safecrlf setting",
    "outside": ["$Id$ expansion (needs SHA-1)", "external filter drivers and working-tree-encoding", "the pipeline ordering in pipeline/convert.rs (needs attribute stacks and driver processes)", "contents longer than the bound",
                "core.eol=native is taken as LF (the harness runs the Unix build)"],
    "stubs": ["alloc::fmt::format -> empty String (safecrlf warning/trace text)"],
    "assumptions": ["model_* are git's gather_stats/convert_is_binary/will_convert_lf_to_crlf/crlf_to_git/crlf_to_worktree (validated natively against git 2.39.5: `git hash-object --path` and `git cat-file --filters` over all contents up to 4 bytes from {a,CR,LF,NUL,^Z,DEL} x 7 attribute sets x 7 admissible autocrlf/eol settings, > 40000 comparisons)"],
    "manifest": {
        "text": "For every content up to the bound (all 256 byte values), every attribute digest and every core.autocrlf/core.eol/core.safecrlf setting, with and without a blob in the index, the solver shows that gitoxide stores and checks out exactly the bytes a transcription of git's convert.c does, and refuses exactly when core.safecrlf=true would. The transcription is validated against the git binary. The suite checks a few fixture files per setting.",
        "note": "Trusted: Kani/CBMC/CaDiCaL; the convert.c transcription (validated against git 2.39.5); ident/drivers/encoding outside; the trailing-^Z defect found by this check is fixed (known_findings.json).",
    },
    "explanation": "Differential bounded model checking of gix-filter's EOL conversion against git's convert.c.",
}
