from runner import Harness as H

P = "c03::proofs::"
hs = []
for a, b in [(1, 1), (1, 2), (1, 3), (2, 1), (2, 2), (2, 3), (3, 1), (3, 2), (3, 3), (4, 6), (6, 4), (6, 6)]:
    big = a > 3 or b > 3
    hs.append(H(P + "c03_cmp_%d_%d" % (a, b), tier="thorough" if big else "quick", timeout=300, mem=6, covers=3,
                desc="Ord for tree::EntryRef and tree::Entry == git base_name_compare (implicit '/' after directories); antisymmetric",
                inputs="names of %d and %d bytes (all values except NUL and '/'); both modes all u16" % (a, b), bound="unwind 5 (8 for the 6-byte instances)"))
hs.append(H(P + "c03_order_transitive", timeout=300, mem=6, covers=1,
            desc="the order is transitive on any three entries", inputs="3 names of 1..2 bytes (symbolic length), modes all u16", bound="unwind 5"))
for k in (1, 2, 3, 4):
    hs.append(H(P + "c03_bisect_%d" % k, tier="quick" if k <= 3 else "thorough", timeout=600, mem=8, covers=3,
                desc="TreeRef::bisect_entry(name,is_dir) is Some(e) iff a linear scan finds an entry with that name and directory-ness; e is that entry",
                inputs="%d entries strictly sorted by git's base_name_compare, names 1..2 bytes (symbolic length, all values except NUL,'/'), modes all u16; query name 1..2 bytes, is_dir symbolic" % k,
                bound="unwind 6"))

SPEC = {
    "id": "C03",
    "crate": "h-object",
    "harnesses": hs,
    "functions": ["<tree::EntryRef as Ord>::cmp", "<tree::Entry as Ord>::cmp", "TreeRef::bisect_entry", "tree::EntryMode::is_tree"],
    "bounds": "names <= 3 bytes (<= 6 thorough) for the order; trees of <= 3 (4 thorough) entries with names <= 2 bytes for lookup; every u16 mode",
    "outside": ["names longer than the bounds", "SHA-1 equality of written trees with git's (follows from order + C01 byte exactness only up to SHA-1)",
                "names containing NUL or '/' (not valid tree entry names)"],
    "assumptions": ["base_name_compare transcription is git's (unit-tested on git's documented order a < a.b < a/ < a0)"],
    "manifest": {
        "text": "For all pairs of names up to the bound and all 2^32 mode pairs the solver shows that gitoxide's entry order is git's base_name_compare, and that binary-search lookup by (name, is-directory) agrees with a linear scan on every git-sorted tree of the bounded shape. The suite checks a few fixture trees; the prefix/implicit-slash cases (bytes below and above '/') are covered exhaustively here.",
        "note": "Trusted: Kani/CBMC/CaDiCaL and the 15-line transcription of base_name_compare; bounds as listed.",
    },
    "explanation": "Differential bounded model checking of gix-object's tree entry order against a transcription of git's base_name_compare, plus lookup vs. linear scan.",
}
