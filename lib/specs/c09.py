from runner import Harness as H

P = "c09::proofs::"
IDS = "ids: bytes 0, 1 and 19 symbolic (rest zero), strictly ascending"
hs = []
for k in (0, 1):
    hs.append(H(P + "c09_fanout_%d" % k, tier="quick" if k <= 1 else "thorough", timeout=900 if k <= 1 else 3000, mem=10 if k <= 1 else 16, covers=2,
                unwindset=[(r"index6encode6fanout\.0:", 258)],
                desc="index::encode::fanout(): entry b == number of ids whose first byte <= b, for every b", inputs="%d %s; b symbolic" % (k, IDS), bound="table loop 258 (256 entries) via per-loop bound; all other loops 6"))
def uw(k):
    # bisection over k entries needs at most k+1 rounds; neighbour scans at most k; harness scans k. memcmp keeps the harness-wide 24.
    # every loop of the two kernels and of the iterator adaptors instantiated with their closures (their mangled names carry the
    # kernel's path), whatever shape the code has today
    return [(r"index6access13lookup_prefix|index6access6lookup", k + 2), (r"c096proofs", k + 2)]
for k in (0, 1, 2, 3, 4):
    hs.append(H(P + "c09_lookup_%d" % k, tier="quick" if k <= 3 else "thorough", timeout=600, mem=8, covers=3, thorough_timeout=2400, unwindset=uw(k),
                desc="index::access::lookup(id) == linear scan (Some(position) iff present)", inputs="%d %s; query id likewise; fan-out correct at the slots read" % (k, IDS), bound="unwind 24 (memcmp); bisection and scans k+2 via per-loop bounds"))
for k, c in [(0, "c"), (1, "c"), (2, "c"), (3, "c"), (4, "c"), (1, "n"), (2, "n"), (3, "n"), (4, "n")]:
    hs.append(H(P + "c09_prefix_%d_%s" % (k, c), tier="quick" if k <= 3 else "thorough", timeout=900, mem=10, covers=4, thorough_timeout=2400, unwindset=uw(k),
                desc="index::access::lookup_prefix == linear scan over cmp_oid: none / unique / ambiguous%s" % (", and candidate range == the matching run" if c == "c" else " (no candidate range requested)"),
                inputs="%d %s; query id likewise; hex_len 4..=40 symbolic" % (k, IDS), bound="unwind 24"))

SPEC = {
    "id": "C09",
    "crate": "h-pack",
    "harnesses": hs,
    "functions": ["gix_pack::index::access::{lookup,lookup_prefix} (the kernels behind index::File and multi_index::File lookups; via guarded forwarders)",
                  "gix_pack::index::encode::fanout", "gix_hash::Prefix::{new,cmp_oid}"],
    "bounds": "index of <= 3 (4 thorough) ids with 3 symbolic bytes each; every query id of that shape; every prefix length 4..=40; fan-out table checked separately for <= 1 id (2 ids: > 15 min, not in a tier)",
    "outside": ["the on-disk layout: 64-bit offset table, CRC table, chunk layout of the multi-pack index, SHA-1 trailer (memory-mapped files)", "indices written by git", "more than 4 ids; ids differing only in bytes 2..=18"],
    "assumptions": ["the fan-out table handed to lookup is correct at the (at most two) slots the query's first byte selects and arbitrary elsewhere; c09_fanout_* shows the real fanout() produces those values"],
    "manifest": {
        "text": "For every sorted id set of the bounded shape and every query id / prefix of every length 4..=40 the solver shows that the bisection kernels return exactly what a linear scan returns - presence and position for full ids; none / unique / ambiguous plus the exact candidate range for prefixes - and that the fan-out table the writer builds holds the cumulative first-byte counts. Tests query a few ids of fixture packs; boundary buckets (0x00, 0xff), shared buckets and ambiguous runs at the edges are all inside the solver's domain.",
        "note": "Trusted: Kani/CBMC/CaDiCaL; add-only cfg-guarded forwarders expose the private kernels; file layout, offsets and CRC are outside the claim.",
    },
    "explanation": "Bounded model checking of the pack-index lookup kernels against a linear scan.",
}
