from runner import Harness as H

P = "c07::proofs::"
STUB = ["-Z", "stubbing"]
SZ = "decompressed size: all u64; pack offset: all u64 below 2^64-64"
hs = [
    H(P + "c07_header_rt_mem_base", timeout=300, mem=6, covers=3,
      desc="Header::write_to -> Entry::from_bytes: same kind, same size, data_offset == pack_offset + written == size()",
      inputs="kind in {Commit,Tree,Blob,Tag}; " + SZ, bound="unwind 12 (<= 10 size bytes)"),
    H(P + "c07_header_rt_read_base", extra_args=STUB, timeout=300, mem=6, covers=3,
      desc="Header::write_to -> Entry::from_read (stream): same kind, same size, consumes exactly the written bytes",
      inputs="kind in {Commit,Tree,Blob,Tag}; " + SZ, bound="unwind 12"),
    H(P + "c07_header_rt_mem_ofs", timeout=400, mem=6, covers=6,
      desc="OfsDelta: write_to -> from_bytes round-trips size and base distance", inputs="distance: all u64 >= 1; " + SZ, bound="unwind 12 (<= 10 distance bytes)"),
    H(P + "c07_header_rt_read_ofs", extra_args=STUB, timeout=400, mem=6, covers=5,
      desc="OfsDelta: write_to -> from_read round-trips size and base distance", inputs="distance: all u64 >= 1; " + SZ, bound="unwind 12"),
    H(P + "c07_header_rt_mem_ref", timeout=400, mem=6, covers=3,
      desc="RefDelta: write_to -> from_bytes round-trips size and base id", inputs="base id: all 20-byte values; " + SZ, bound="unwind 22"),
    H(P + "c07_header_rt_read_ref", extra_args=STUB, timeout=400, mem=6, covers=3,
      desc="RefDelta: write_to -> from_read round-trips size and base id", inputs="base id: all 20-byte values; " + SZ, bound="unwind 22"),
    H(P + "c07_ofs_distance_length", timeout=300, mem=6, covers=2,
      desc="the offset encoding has git's minimal length for every distance (1 byte < 2^7, 2 bytes < 2^7+2^14, ...)",
      inputs="distance: all u64 >= 1", bound="unwind 12"),
    H(P + "c07_decoders_agree", extra_args=STUB, timeout=600, mem=8, covers=3,
      desc="Entry::from_bytes and Entry::from_read agree on arbitrary header bytes (kind, size, consumed) and on which type ids are refused",
      inputs="40 arbitrary bytes whose continuation chains end within 10 bytes", bound="unwind 24"),
    H(P + "c07_delta_hdr_0", timeout=120, mem=4, covers=2, desc="delta size header == git get_delta_hdr_size", inputs="0 bytes", bound="unwind 11"),
    H(P + "c07_delta_hdr_3", timeout=120, mem=4, covers=2, desc="delta size header == git get_delta_hdr_size", inputs="3 arbitrary bytes", bound="unwind 11"),
    H(P + "c07_delta_hdr_9", timeout=200, mem=4, covers=2, desc="delta size header == git get_delta_hdr_size", inputs="9 arbitrary bytes", bound="unwind 11"),
]
for b, d, t, tier in [(4, 4, 3, "quick"), (4, 5, 4, "quick"), (3, 6, 4, "quick"), (4, 8, 5, "thorough"), (2, 7, 6, "thorough")]:
    hs.append(H(P + "c07_delta_apply_b%d_d%d_t%d" % (b, d, t), tier=tier, timeout=600, mem=8, covers=2, thorough_timeout=2400,
                desc="whenever git's patch_delta accepts (base, instructions, result size), delta::apply produces exactly git's bytes and does not panic",
                inputs="base %d bytes, instruction stream %d bytes, result %d bytes: all values" % (b, d, t), bound="unwind 10"))

SPEC = {
    "id": "C07",
    "crate": "h-pack",
    "harnesses": hs,
    "functions": ["gix_pack::data::entry::Header::{write_to,size,as_type_id}", "gix_pack::data::entry::header::leb64_encode",
                  "gix_pack::data::Entry::{from_bytes,from_read}", "gix_pack::data::entry::decode::{parse_header_info,streaming_parse_header_info}",
                  "gix_features::decode::{leb64,leb64_from_read}", "gix_pack::data::delta::{decode_header_size,apply} (via guarded forwarders)"],
    "bounds": "headers: every kind, every u64 size, every u64 distance >= 1, every 20-byte base id; delta instruction streams <= 6 (8 thorough) bytes over bases <= 4 bytes",
    "outside": ["deltas extracted from real packs (zlib inflate) and copy sizes > 4 bytes, in particular the implicit 0x10000 copy",
                "delta streams git's patch_delta refuses (apply() panics on them by design; callers validate sizes first)",
                "SHA-256 (32-byte) base ids"],
    "stubs": ["alloc::fmt::format -> empty String (only in the stream-decoder harnesses: message of the 'unsupported type' io::Error)"],
    "assumptions": ["model_patch_delta / model_delta_hdr_size are transcriptions of git's patch-delta.c / delta.h (unit-tested on hand-made deltas)"],
    "manifest": {
        "text": "For every header kind, all 2^64 sizes, all 2^64-1 base distances and all 2^160 base ids the solver shows that the written pack entry header decodes from memory and from a stream to the same values consuming exactly the written length, that size() is that length, that the distance encoding has git's minimal length, and that the two decoders agree on arbitrary header bytes. Delta application equals a transcription of git's patch_delta on all instruction streams up to the stated length. Tests exercise a handful of sizes; every 7-bit boundary is inside the solver's domain.",
        "note": "Trusted: Kani/CBMC/CaDiCaL; the patch_delta transcription; deltas from real packs (zlib) and long copies are outside the claim; delta kernels are reached through add-only cfg-guarded forwarders in gix-pack.",
    },
    "explanation": "Bounded model checking of gix-pack's entry header codec (round trip through both decoders) and differential checking of delta::apply against git's patch_delta.",
}
