from runner import Harness as H

P = "c05::proofs::"
hs = [
    H(P + "c05_id_hex_roundtrip", timeout=300, mem=6, covers=2,
      desc="ObjectId -> hex_to_buf -> ObjectId::from_hex is the identity; each hex digit is the id's nibble; one upper-cased digit parses to the same id",
      inputs="id: all 2^160 values; digit position 0..39 symbolic", bound="unwind 42 (40 hex digits)"),
    H(P + "c05_id_from_hex_arbitrary", timeout=300, mem=6, covers=2,
      desc="ObjectId::from_hex on arbitrary 40 bytes: Ok only if every byte is a hex digit, and the value is digit-exact",
      inputs="40 arbitrary bytes (256^40)", bound="unwind 42"),
    H(P + "c05_prefix_cmp", timeout=300, mem=6, covers=3,
      desc="Prefix::new(a,n).cmp_oid(b) equals comparison of a and b masked to their first n hex digits; as_oid() is the masked id",
      inputs="a,b: all 20-byte ids; n: 4..=40 symbolic (odd and even)", bound="unwind 22"),
    H(P + "c05_prefix_len_errors", timeout=120, mem=4, covers=3,
      desc="Prefix::new accepts exactly hex_len 4..=40", inputs="id all values, hex_len all usize", bound="unwind 22"),
    H(P + "c05_from_hex_len_errors", timeout=120, mem=4, covers=1,
      desc="Prefix::from_hex rejects < 4 and > 40 characters with the right error", inputs="concrete", bound="-"),
]
for L in range(4, 41):
    quick = L in (4, 5, 7, 8, 19, 20, 39, 40)
    hs.append(H(P + "c05_from_hex_%02d" % L, tier="quick" if quick else "thorough", timeout=400, mem=6, covers=3,
                desc="Prefix::from_hex on %d ASCII chars: Ok iff all hex (any case); digits exact, tail zero, equals Prefix::new of itself, cmp_oid Equal implies digit agreement, prints back lower-cased" % L,
                inputs="%d arbitrary ASCII bytes + a second arbitrary id" % L, bound="unwind 42; length %d concrete" % L))

SPEC = {
    "id": "C05",
    "crate": "h-core",
    "harnesses": hs,
    "functions": ["gix_hash::Prefix::{new,from_hex,cmp_oid,hex_len,as_oid}", "gix_hash::ObjectId::{from_hex,from}",
                  "gix_hash::oid::{hex_to_buf,as_bytes}", "faster_hex::{hex_decode,hex_encode} (portable fallback)"],
    "bounds": "all 20-byte ids; all prefix lengths 4..=40 (symbolic for cmp, one query per length for from_hex); text restricted to ASCII",
    "outside": ["non-ASCII &str input to Prefix::from_hex", "Display formatting machinery (hex_to_buf is checked instead of fmt::Display)",
                "SIMD paths of faster-hex"],
    "assumptions": ["faster-hex's portable fallback and its SIMD implementations agree"],
    "manifest": {
        "text": "For all 2^160 ids, all prefix lengths 4..=40 and all ASCII texts of each length 4..40 the solver shows: hex round-trip is the identity, Prefix::new/from_hex produce exactly the first n digits (trailing nibble masked, tail zero), cmp_oid equals digit-wise prefix comparison, and the hex form prints back lower-cased. Bounded only by the id size (SHA-1) — within it this is every input, which the test-suite's handful of ids cannot give.",
        "note": "Trusted: Kani/CBMC/CaDiCaL; faster-hex's portable fallback stands in for its SIMD paths (vendored patch); Display goes through hex_to_buf which is what is checked; non-ASCII &str input outside.",
    },
    "explanation": "Bounded model checking of gix-hash's id/prefix code over all ids and all prefix lengths.",
}
