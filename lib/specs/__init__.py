"""Per-property check specifications: which harnesses, their bounds and caps."""
import importlib
import os

def load(pid):
    mod = importlib.import_module("specs." + pid.lower())
    return mod.SPEC

def all_ids():
    here = os.path.dirname(__file__)
    return sorted(f[:-3].upper() for f in os.listdir(here) if f.startswith("c") and f.endswith(".py"))
