"""Per-property check specifications: which harnesses, their bounds and caps."""
import importlib
import os

def load(pid):
    """Spec of a claimed property (c<NN>.py) or of a shelved harness set that other checks borrow from (_c<NN>.py)."""
    try:
        mod = importlib.import_module("specs." + pid.lower())
    except ModuleNotFoundError:
        mod = importlib.import_module("specs._" + pid.lower())
    return mod.SPEC

def all_ids():
    here = os.path.dirname(__file__)
    return sorted(f[:-3].upper() for f in os.listdir(here) if f.startswith("c") and f.endswith(".py"))
