from runner import Harness as H

P = "c15::proofs::"
hs = []
for n in range(0, 9):
    hs.append(H(P + "c15_validate_%d" % n, tier="quick" if n <= 6 else "thorough", timeout=400, mem=6, covers=2,
                desc="name_partial(x) / tag::name(x) Ok <=> git check_refname_format(x, ALLOW_ONELEVEL); name(x) Ok <=> that and (has '/' or [A-Z_]+); no panic",
                inputs="all byte strings of length %d (256^%d), except the lone \"@\" (known finding, own harness)" % (n, n), bound="unwind 12; length concrete"))
hs.append(H(P + "c15_validate_lone_at", timeout=120, mem=4, covers=0, expect="known_finding", finding="C15-F11",
            desc="the lone \"@\": git refuses it", inputs="the single input \"@\"", bound="concrete"))
for a, b in [(1, 0), (1, 2), (2, 2), (3, 1), (2, 3)]:
    hs.append(H(P + "c15_lock_%d_%d" % (a, b), tier="quick" if a + b <= 4 else "thorough", timeout=400, mem=6, covers=2,
                desc="validation around '.lock': <a>.lock<b> agrees with git", inputs="a: %d bytes, b: %d bytes, all values" % (a, b), bound="unwind 12"))
for n in range(0, 4):
    big = n == 3
    hs.append(H(P + "c15_sanitize_%d" % n, tier="thorough" if big else "quick", timeout=2400 if big else 600, mem=24 if big else 10, covers=2,
                desc="name_partial_or_sanitize(x) never panics; its result passes name_partial and git's rules",
                inputs="all byte strings of length %d" % n, bound="unwind 9; length concrete"))
SPEC = {
    "id": "C15",
    "crate": "h-core",
    "harnesses": hs,
    "functions": ["gix_validate::tag::name_inner (both modes)", "gix_validate::tag::name", "gix_validate::reference::{name,name_partial,name_partial_or_sanitize,validate}"],
    "bounds": "validation: every byte string of length 0..=6 (8 thorough) plus '.lock' templates up to 10 bytes; sanitising: every byte string of length 0..=2 (3 thorough; measured 10 min / 19 GB) plus two '.lock' templates in the thorough tier",
    "outside": ["names longer than the bounds", "one-level names containing '-' (git's pseudo-ref syntax allows it, gitoxide documents [A-Z_]+): the complete-name rule is compared with gitoxide's documented rule",
                "gix-ref's FullName/PartialName wrappers (they call these functions)"],
    "assumptions": ["model_check_refname_onelevel is git's check_refname_format (validated against `git check-ref-format --allow-onelevel` of git 2.39.5 on > 3000 strings over a special-character alphabet by the crate's native test)"],
    "manifest": {
        "text": "For every byte string up to the bound (all 256 byte values per position) the solver shows that gitoxide's validator accepts exactly the names a transcription of git's check_refname_format accepts, that the complete-name rule is the documented one, and that the sanitiser never panics and always returns a name both validators accept. The transcription is validated against the git binary. Tests list a few dozen names; interactions such as '@{' across components, '.lock' at component ends or inputs that sanitise to nothing are only reachable by covering every string.",
        "note": "Trusted: Kani/CBMC/CaDiCaL; the 60-line transcription of git's rules (validated against git 2.39.5); bounds as listed; the lone \"@\" is a recorded known finding.",
    },
    "explanation": "Differential bounded model checking of gix-validate's single-pass validator/sanitiser against git's check_refname_format.",
}
