from runner import Harness as H

P = "c01::proofs::"
STUB = ["-Z", "stubbing"]
TIME = "time: seconds all i64, offset all i32 with |offset| < 100h, both sign markers"
hs = [
    H(P + "c01_time_size", timeout=400, mem=6, covers=4,
      desc="Time::write_to is Ok on every offset below 100h and writes exactly Time::size() bytes",
      inputs="seconds all i64; offset all i32; sign both", bound="unwind 24 (<= 20 decimal characters)"),
    H(P + "c01_time_format_offset", timeout=400, mem=6, covers=2,
      desc="written time is '<seconds> SP sign HH MM' with HH:MM the offset's hours/minutes, '-' iff negative, no leading zero",
      inputs=TIME, bound="unwind 24"),
    H(P + "c01_time_format_seconds_small", timeout=400, mem=6, covers=2,
      desc="decimal seconds re-parse to the same value", inputs="|seconds| < 10^6", bound="unwind 24"),
]
for a, e in [(1, 1), (2, 1), (1, 2), (3, 3)]:
    hs.append(H(P + "c01_sig_size_%d_%d" % (a, e), tier="quick" if (a, e) != (3, 3) else "thorough", timeout=600, mem=8, covers=2,
                desc="SignatureRef::write_to Ok iff no '<','>',LF in name/email; then bytes == size() and layout name SP <email> SP time",
                inputs="name %d bytes, email %d bytes (all values); %s" % (a, e, TIME), bound="unwind 24"))
for n, shape in [("p0_x3", "0 parents, no encoding, one extra header with 3 symbolic value bytes, 2-byte message"),
                 ("p2_enc", "2 parents, 2-byte encoding, no extra header, empty message"),
                 ("p1_x2", "1 parent, 1-byte encoding, one extra header with 2 symbolic value bytes, 1-byte message")]:
    for kind in ("commit_ref", "commit"):
        hs.append(H(P + "c01_%s_%s" % (kind, n), timeout=400, mem=8, covers=3, extra_args=STUB,
                    desc="%s::write_to byte count == size() whenever writing succeeds" % ("CommitRef" if kind == "commit_ref" else "Commit"),
                    inputs=shape + "; concrete name/email/time/ids", bound="unwind 6"))
for kind in ("tag_ref", "tag"):
    for n, shape in [("n2_m2_p0", "2-byte tag name, 2-byte message, no pgp signature"), ("n1_m0_p2", "1-byte tag name, empty message, 2-byte pgp signature")]:
        hs.append(H(P + "c01_%s_%s" % (kind, n), timeout=400, mem=8, covers=2, extra_args=STUB,
                    desc="%s::write_to byte count == size() whenever writing succeeds (name validated by gix_validate::tag::name)" % ("TagRef" if kind == "tag_ref" else "Tag"),
                    inputs=shape + "; tagger symbolic Some/None; target kind any; concrete ids/time", bound="unwind 6"))
for k, l in [(1, 2), (2, 1), (2, 2)]:
    hs.append(H(P + "c01_tree_ref_k%d_l%d" % (k, l), timeout=900, mem=10, covers=2,
                desc="TreeRef::write_to Ok iff no NUL in names; bytes == size(); entry layout '<octal mode> SP name NUL id'",
                inputs="%d entries, names %d bytes (all values), modes all u16, sorted by the real Ord" % (k, l), bound="unwind 24"))

for k, l, tier in [(1, 1, "quick"), (1, 3, "thorough")]:
    hs.append(H("c01::tree_roundtrip::c01_tree_roundtrip_k%d_l%d" % (k, l), tier=tier, timeout=1200, mem=10, covers=2, extra_args=STUB, thorough_timeout=2400,
                desc="TreeRef::write_to -> TreeRefIter (fast_entry decoder): every entry comes back with the same mode, name and id, and nothing is left over",
                inputs="%d entries, names %d bytes (all values but NUL), every mode the decoder accepts (040000 or bit 15 set), id all 20 bytes" % (k, l), bound="unwind 24"))

SPEC = {
    "id": "C01",
    "crate": "h-object",
    "harnesses": hs,
    "functions": ["gix_date::Time::{write_to,size}", "gix_actor::SignatureRef::{write_to,size}", "<CommitRef|Commit|TagRef|Tag|TreeRef as WriteTo>::{write_to,size}", "TreeRefIter::next / tree::ref_iter::decode::fast_entry / mode_from_decimal (round trip of written trees)",
                  "gix_object::encode::{header_field,header_field_multi_line,trusted_header_*}", "tree::EntryMode::as_bytes"],
    "bounds": "times: full i64 x all writable offsets; names/emails <= 3 bytes; commit/tag shapes as listed per harness; trees <= 2 entries with names <= 2 bytes and all 65536 modes",
    "stubs": ["composite commit/tag harnesses only: alloc::fmt::format -> empty String; gix_hash::oid::write_hex_to -> writes 40 fixed hex digits; gix_hash::ObjectId::from_hex -> null id (hex coding is C05's subject; only byte counts matter here)"],
    "outside": ["encode::loose_header (itoa into a SmallVec: every query with a symbolic size ran out of memory, > 40 GB; measured) - decode::loose_header is covered under C06", "SHA-1 of the written bytes (object id equality with git reduces to byte/size exactness here)",
                "decode round-trip of commits and tags (winnow grammar; measured out of reach, DESIGN §4) - trees do round-trip through the hand-written entry decoder",
                "longer names/messages/headers than the stated shapes", "loose-object file writing (gix-odb)"],
    "assumptions": ["tree entries are pre-sorted by the crate's own Ord (C03 checks that order against git's)"],
    "manifest": {
        "text": "The solver shows for every i64 timestamp and every writable offset that Time::size() equals the bytes written and that the text is canonical; the same equality for signatures, commits, tags and trees of the stated small shapes with all byte values. Tests sample a few timestamps; the ladder in Time::size has 38 rungs with boundary values no test hits.",
        "note": "Trusted: Kani/CBMC/CaDiCaL; object ids (SHA-1) and full-object decode are outside the claim; shapes are bounded as listed in the evidence.",
    },
    "explanation": "Bounded model checking of the size()/write_to() pairs of gix-date, gix-actor and gix-object.",
}
