import json
import os
import subprocess

import runner
from runner import Harness as H

P = "proofs::"


def nonterm_replay(pid, h, r):
    """Native demonstration of the non-terminating walk: the crate's unit test runs the sliced loop on
    HEAD -> refs/heads/main with a failed lock on the child, in a thread, and fails if it does not return in 5 s."""
    crate = "h-slice"
    cwd = runner.prepare_crate(crate)
    env = dict(runner.ENV)
    env["CARGO_TARGET_DIR"] = os.path.join(runner.TARGET_ROOT, "native-slice")
    p = subprocess.run(["cargo", "test", "--offline", "walk_terminates_for_child_of_root", "--", "--nocapture"], cwd=cwd, env=env,
                       capture_output=True, text=True, timeout=900)
    out = p.stdout + p.stderr
    ran = "running 1 test" in out
    failed = ran and "test result: FAILED" in out
    os.makedirs(os.path.join(runner.REPLAYS, pid), exist_ok=True)
    rpath = os.path.join(runner.REPLAYS, pid, h.short + ".json")
    json.dump({"property_id": pid, "crate": crate, "harness": h.name, "kind": "non-termination",
               "native_test": "cargo test walk_terminates_for_child_of_root (in harness/h-slice, after pre_build.py)", "test_filter": "walk_terminates_for_child_of_root",
               "input": "updates = [HEAD (root), refs/heads/main (parent_index = Some(0))]; the lock on the child fails",
               "reproduced": bool(failed), "tail": out[-1500:]}, open(rpath, "w"), indent=1)
    return (True if failed else (False if ran else None)), rpath


hs = []
for l in (1, 2, 3, 4):
    hs.append(H(P + "c17_lock_failure_walk_%d" % l, timeout=300, mem=6, covers=2, unwind_failure_is_violation=True,
                desc="after a failed lock acquisition the walk up the parent chain terminates within L rounds and names the chain's root",
                inputs="%d updates, every parent forest the split step can build (child after parent), failing edit symbolic" % l, bound="unwind %d = L+2: more rounds than edits is non-termination" % (l + 2)))
for l in (3, 4):
    hs.append(H(P + "c17_propagate_walk_%d" % l, timeout=300, mem=6, covers=1, unwind_failure_is_violation=True,
                desc="after a successful lock the walk that hands the leaf's previous oid to every ancestor terminates and touches exactly the ancestors",
                inputs="%d updates, every parent forest, leaf symbolic" % l, bound="unwind %d" % (l + 2)))


def replay_file_hook(path):
    return None


SPEC = {
    "id": "C17",
    "crate": "h-slice",
    "level": "other",
    "harnesses": hs,
    "nonterm_replay": nonterm_replay,
    "functions": ["two loops of gix_ref::store::file::transaction::prepare::prepare_inner - sliced textually (unchanged) out of prepare.rs on every run: the `full_name` block of the Error::LockAcquire arm and the leaf_referent_previous_oid propagation loop"],
    "bounds": "transactions of <= 4 edits after symbolic-ref splitting; every parent forest with child index > parent index",
    "outside": ["lock acquisition itself, back-off, packed-refs locking (filesystem and time: not encodable with this technique)",
                "everything else in prepare_inner; commit()", "the slice stands in for the function: the surrounding data flow (what `change` and `updates` are) is the shim's"],
    "assumptions": ["Edit shim (parent_index, name(), leaf_referent_previous_oid) mirrors the fields the loops use", "parent_index forms a forest with child index > parent index, as extend_with_splits_of_symbolic_refs builds it"],
    "manifest": {
        "text": "The property speaks about lock files on disk, which bounded model checking cannot execute. What it decides is the one place where prepare() can fail to return regardless of the filesystem: the parent-chain walks run after a lock attempt. Their source text is sliced out of prepare.rs unchanged on every run and the solver shows, for every parent forest of up to 4 edits and every failing edit, that the walk ends within as many rounds as there are edits and reports the root's name. No test locks the target of a dereferenced symbolic ref, which is the only way to enter the loop with a parent.",
        "note": "Level 'other': sliced-source bounded model checking. Trusted: Kani/CBMC/CaDiCaL; the textual slice and its 10-line shim; everything about real lock files is outside the claim.",
        "technique": "bounded model checking (Kani -> CBMC -> CaDiCaL) of loops sliced textually from the current source; unwinding assertions decide termination",
    },
    "explanation": "Sliced-source bounded model checking: the two parent-chain loops of prepare_inner() are extracted verbatim from /repo on every run and checked for termination and result over all parent forests of bounded size; unwinding assertions make non-termination a reported failure.",
}
