from runner import Harness as H

P = "c29::proofs::"
STUB = ["-Z", "stubbing"]
hs = [
    H(P + "c29_prefix_all", timeout=600, mem=8, covers=4, extra_args=STUB,
      desc="hex_prefix never panics and classifies every four-byte prefix (flush/delim/response-end, length 5..=65535, invalid 3/4/non-hex) as the pkt-line format defines",
      inputs="all 2^32 four-byte prefixes", bound="unwind 6"),
    H(P + "c29_streaming_short", timeout=300, mem=6, covers=2, desc="fewer than 4 bytes: Incomplete with the missing count", inputs="0..=3 arbitrary bytes", bound="unwind 6"),
]
for n in (5, 6, 8):
    hs.append(H(P + "c29_streaming_%d" % n, timeout=600, mem=8, covers=3, extra_args=STUB,
                desc="streaming(): Complete (payload = bytes after the prefix, consumed = length) / Incomplete (missing count) / Err (invalid or > 65520) exactly by the numeric prefix",
                inputs="all prefixes x %d arbitrary data bytes" % (n - 4), bound="unwind 10"))
for name, what in [("data_1", "data line, 1 byte"), ("data_4", "data line, 4 bytes"), ("text_3", "text line, 3 bytes"),
                   ("err_2", "ERR line, 2 bytes"), ("band1_3", "side-band 1, 3 bytes"), ("band2_2", "side-band 2, 2 bytes"), ("band3_1", "side-band 3, 1 byte")]:
    hs.append(H(P + "c29_ed_" + name, timeout=600, mem=8, covers=1, extra_args=STUB,
                desc="line written by the encoder decodes to the same line/band, consuming exactly the written length", inputs=what + ", all byte values", bound="unwind 12"))
hs.append(H(P + "c29_ed_empty_refused", timeout=300, mem=6, covers=1, extra_args=STUB, desc="every encoder refuses an empty payload and writes nothing", inputs="4 encoders", bound="-"))
hs.append(H(P + "c29_ed_control", timeout=300, mem=6, covers=1, extra_args=STUB, desc="flush/delim/response-end decode to themselves", inputs="3 control lines", bound="-"))
hs.append(H(P + "c29_encode_limit", timeout=600, mem=8, covers=2, extra_args=STUB, desc="data/text/ERR/band encoders: the largest admissible line (65516 data bytes incl. what the encoder adds) is written as 65520 bytes, one more byte is refused",
            inputs="concrete payloads at the boundary, encoder symbolic", bound="-"))
for n in (5, 6, 8):
    hs.append(H(P + "c29_reader_%d" % n, tier="quick" if n <= 6 else "thorough", timeout=900, mem=12, covers=3, extra_args=STUB, cbmc_args=["--arrays-uf-always"], thorough_timeout=2400,
                desc="the line reader kernel read_line_inner (behind StreamingPeekableIter::read_line/peek_line), buffer of MAX_LINE_LEN bytes as at both call sites: for EVERY length prefix a line or an error - never a panic - agreeing with the format; in particular prefixes fff1..ffff",
                inputs="all 2^32 prefixes x %d arbitrary data bytes, delivered by a byte-at-a-time reader" % (n - 4), bound="unwind 10; CBMC --arrays-uf-always (65520-byte buffer as an uninterpreted-function array: without it the query runs out of memory)"))

SPEC = {
    "id": "C29",
    "crate": "h-core",
    "harnesses": hs,
    "functions": ["gix_packetline::decode::{hex_prefix,streaming,to_data_line}", "gix_packetline::encode::{data,text,error,band,flush,delim,response_end}_to_write",
                  "PacketLineRef::{as_text,check_error,decode_band}", "StreamingPeekableIter::read_line_inner (blocking; via a guarded forwarder)", 
                  "faster_hex::{hex_decode,hex_encode} (portable fallback)"],
    "bounds": "every 4-byte prefix; payloads <= 4 bytes plus the 65516/65517 boundary",
    "outside": ["the bookkeeping around the reader kernel in StreamingPeekableIter (delimiters, ERR handling, peek buffer swapping: Vec<u8> of 65520 bytes resized at run time)", "async-io variants", "side-band demultiplexing through WithSidebands (Read impl) and multi-line chunked delivery", "payload lengths between 5 and 65515",
                "error message texts (alloc::fmt::format stubbed)"],
    "stubs": ["alloc::fmt::format -> empty String"],
    "assumptions": ["model_prefix is the pkt-line format of git's protocol-common documentation (unit-tested on the special values)"],
    "manifest": {
        "text": "The solver covers all 2^32 length prefixes: classification, streaming decode (complete/incomplete/error with exact byte counts) and the blocking reader kernel return a value or an error for every one of them, and every data/text/ERR/side-band/control line the encoders write decodes back to itself consuming exactly the written length. Tests use a handful of prefixes; the reader's behaviour on prefixes above its buffer size is only visible when all are covered.",
        "note": "Trusted: Kani/CBMC/CaDiCaL; faster-hex fallback; fmt::format stubbed; payload sizes bounded as listed; WithSidebands and chunked multi-line delivery outside.",
    },
    "explanation": "Bounded model checking of gix-packetline's codec and blocking reader over all length prefixes.",
}
