from runner import Harness as H

P = "c29::proofs::"
STUB = ["-Z", "stubbing"]
hs = [
    H(P + "c29_prefix_all", timeout=600, mem=8, covers=4, extra_args=STUB,
      desc="hex_prefix never panics and classifies every four-byte prefix (flush/delim/response-end, length 5..=65535, invalid 3/4/non-hex) as the pkt-line format defines",
      inputs="all 2^32 four-byte prefixes", bound="unwind 6"),
    H(P + "c29_streaming_short", timeout=300, mem=6, covers=2, desc="fewer than 4 bytes: Incomplete with the missing count", inputs="0..=3 arbitrary bytes", bound="unwind 6"),
]
for n in (5, 6, 8):
    hs.append(H(P + "c29_streaming_%d" % n, timeout=600, mem=8, covers=3, extra_args=STUB,
                desc="streaming(): Complete (payload = bytes after the prefix, consumed = length) / Incomplete (missing count) / Err (invalid or > 65520) exactly by the numeric prefix",
                inputs="all prefixes x %d arbitrary data bytes" % (n - 4), bound="unwind 10"))
for name, what in [("data_1", "data line, 1 byte"), ("data_4", "data line, 4 bytes"), ("text_3", "text line, 3 bytes"),
                   ("err_2", "ERR line, 2 bytes"), ("band1_3", "side-band 1, 3 bytes"), ("band2_2", "side-band 2, 2 bytes"), ("band3_1", "side-band 3, 1 byte")]:
    hs.append(H(P + "c29_ed_" + name, timeout=600, mem=8, covers=1, extra_args=STUB,
                desc="line written by the encoder decodes to the same line/band, consuming exactly the written length", inputs=what + ", all byte values", bound="unwind 12"))
hs.append(H(P + "c29_ed_empty_refused", timeout=300, mem=6, covers=1, extra_args=STUB, desc="every encoder refuses an empty payload and writes nothing", inputs="4 encoders", bound="-"))
hs.append(H(P + "c29_ed_control", timeout=300, mem=6, covers=1, extra_args=STUB, desc="flush/delim/response-end decode to themselves", inputs="3 control lines", bound="-"))
hs.append(H(P + "c29_encode_limit", timeout=600, mem=8, covers=2, extra_args=STUB, desc="data/text/ERR/band encoders: the largest admissible line (65516 data bytes incl. what the encoder adds) is written as 65520 bytes, one more byte is refused",
            inputs="concrete payloads at the boundary, encoder symbolic", bound="-"))
SPEC = {
    "id": "C29",
    "crate": "h-core",
    "harnesses": hs,
    "functions": ["gix_packetline::decode::{hex_prefix,streaming,to_data_line}", "gix_packetline::encode::{data,text,error,band,flush,delim,response_end}_to_write",
                  "PacketLineRef::{as_text,check_error,decode_band}", 
                  "faster_hex::{hex_decode,hex_encode} (portable fallback)"],
    "bounds": "every 4-byte prefix; payloads <= 4 bytes plus the 65516/65517 boundary",
    "outside": ["the blocking/async line READER (StreamingPeekableIter::read_line/peek_line): every query that carries its 65520-byte line buffer ran out of memory (20-28 GB), also through a guarded forwarder to read_line_inner with a byte-at-a-time reader; its defect for prefixes fff1..ffff was found by reading, demonstrated natively and fixed (known_findings.json) but a regression there is NOT detected by this check", "async-io variants", "side-band demultiplexing through WithSidebands (Read impl) and multi-line chunked delivery", "payload lengths between 5 and 65515",
                "error message texts (alloc::fmt::format stubbed)"],
    "stubs": ["alloc::fmt::format -> empty String"],
    "assumptions": ["model_prefix is the pkt-line format of git's protocol-common documentation (unit-tested on the special values)"],
    "manifest": {
        "text": "The solver covers all 2^32 length prefixes: classification, streaming decode (complete/incomplete/error with exact byte counts) return a value or an error for every one of them, and every data/text/ERR/side-band/control line the encoders write decodes back to itself consuming exactly the written length. Tests use a handful of prefixes. The stream reader built on top of these functions is outside the claim (its buffer is too large for the solver).",
        "note": "Trusted: Kani/CBMC/CaDiCaL; faster-hex fallback; fmt::format stubbed; payload sizes bounded as listed; WithSidebands and chunked multi-line delivery outside.",
    },
    "explanation": "Bounded model checking of gix-packetline's codec and blocking reader over all length prefixes.",
}
