import json
import os
import subprocess

import runner
from runner import Harness as H


native_rejected_demo = runner.make_native_replay("h-slice", "balanced_after_rejected_directory_push", "make_relative_path_current('a/b') with push() rejected for 'a', then make_relative_path_current('c') - through the sliced source")

P = "c42::proofs::"
hs = [
    H(P + "c42_history_1_nofail", timeout=900, mem=10, covers=2,
      desc="first call on a fresh stack: current()/current_relative() are the path; the root and every directory component are open", inputs="1 path of 1..=3 components over two names", bound="unwind 6"),
    H(P + "c42_history_2_nofail", timeout=1500, mem=16, covers=2,
      desc="two arbitrary paths made current one after the other: current()/current_relative() are the last path and push_directory - pop_directory equals the number of open directories",
      inputs="2 paths of 1..=3 components over two names, all combinations satisfying the documented precondition (no path a proper prefix of another)", bound="unwind 6; paths <= 3 components"),
    H(P + "c42_rejected_2_paths", timeout=1500, mem=16, covers=2,
      desc="histories in which the delegate rejects one push() and/or one push_directory(): current() stays root joined with current_relative(), and after a successful call both are the last path",
      inputs="2 paths as above; rejection schedule symbolic (call numbers 1..=7)", bound="unwind 6"),
    H(P + "c42_known_rejected_2", timeout=1500, mem=16, covers=0, expect="known_finding", finding="C42-F10",
      desc="the push_directory/pop_directory balance in histories with a rejected push() and/or push_directory() (symbolic call numbers)", inputs="2 paths as above; rejection schedule symbolic", bound="unwind 6"),
]

SPEC = {
    "id": "C42",
    "crate": "h-slice",
    "level": "other",
    "harnesses": hs,
    "native_replay": {"c42_known_rejected_2": native_rejected_demo,
                      "c42_rejected_2_paths": runner.make_native_replay("h-slice", "paths_consistent_in_all_small_rejection_histories", "every 2-call history of the harness' input class (paths of 1..=3 components over two names, one rejected push and/or push_directory), replayed natively through the sliced source")},
    "functions": ["gix_fs::Stack::{new, make_relative_path_current, current, current_relative} - the verbatim text of gix-fs/src/stack.rs and the Stack struct of gix-fs/src/lib.rs, regenerated from /repo on every run and compiled against a shim of the std::path / std::io items it uses"],
    "bounds": "histories of 1 and 2 calls (3 calls: 28 GB, in no tier); relative paths of 1..=3 components over two distinct names; empty root",
    "outside": ["std::path semantics themselves (component splitting, separators, prefixes): replaced by the shim, where a path is a sequence of component ids",
                "the delegates of gix-worktree (attribute/ignore stacks) and their I/O", "the notification balance in histories with rejected pushes, beyond being recorded as known finding C42-F10 (path consistency in those histories IS checked)", "longer histories and deeper paths",
                "paths that are used as a file in one call and as a directory in another (excluded by the function's documented precondition)"],
    "assumptions": ["the shim (harness/h-slice/src/c42_shim.rs.in) implements components()/push()/pop()/as_os_str().is_empty()/== with std's meaning for normalized relative paths",
                    "paths are terminal (documented precondition of make_relative_path_current)"],
    "manifest": {
        "text": "gix_fs::Stack over real std::path cannot be executed symbolically within reach (measured). The check therefore compiles the verbatim source text of stack.rs - re-read from /repo on every run - against a 100-line shim in which a path is a short sequence of component ids, and the solver explores every history of up to 2 calls over all such paths: after each successful call the current path is the last one and directory push/pop notifications are balanced. Histories with a rejected push are a recorded known finding (the notifications become unbalanced), demonstrated natively against the real gix-fs as well. The suite's only stack test never rejects a push.",
        "note": "Level 'other': sliced-source bounded model checking. Trusted: Kani/CBMC/CaDiCaL; the std::path shim; the textual extraction. Rejection histories are a known finding, not a pass.",
        "technique": "bounded model checking (Kani -> CBMC -> CaDiCaL) of stack.rs' verbatim source compiled against a std::path shim; histories symbolic",
    },
    "explanation": "Sliced-source bounded model checking of gix-fs' path stack: verbatim source text, shimmed std::path, symbolic call histories and rejection schedules.",
}
