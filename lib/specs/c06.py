"""C06 - untrusted bytes never crash a parser. The check is the union of the no-panic queries over every parser entry
point that bounded model checking reaches here; the queries shared with C15/C29/C57/C07 are the same harness functions."""
import copy

from runner import Harness as H
import specs


def borrowed(pid, names, crate):
    out = []
    src = {h.short: h for h in specs.load(pid)["harnesses"]}
    for n in names:
        h = copy.copy(src[n])
        h.crate = crate
        h.tier = "quick" if h.tier == "quick" else "thorough"
        out.append(h)
    return out


STUB = ["-Z", "stubbing"]
hs = [
    H("c06::proofs::c06_ewah_decode_7", timeout=300, mem=6, covers=0, desc="ewah::decode on fewer bytes than the header: error, no panic", inputs="7 arbitrary bytes", bound="unwind 10"),
    H("c06::proofs::c06_ewah_decode_20", timeout=600, mem=8, covers=2, desc="ewah::decode on arbitrary bytes (truncated buffers, wrong word counts): value or error, no panic",
      inputs="20 arbitrary bytes, declared word count < 65536", bound="unwind 10"),
]
for k in (0, 1, 2):
    hs.append(H("c06::proofs::c06_ewah_walk_%d" % k, tier="quick" if k <= 1 else "thorough", timeout=900, mem=12, covers=2, thorough_timeout=2400,
                unwindset=[(r"for_each_set_bit\S*\.1: ", 66)],
                desc="decode + Vec::for_each_set_bit over arbitrary words: ends with Some/None, never panics (literal-word counts larger than the data included)",
                inputs="%d arbitrary 64-bit words (run lengths 0, literal counts and bits arbitrary), arbitrary num_bits/rlw" % k, bound="bit loop 66, other loops 5"))
for n in (7, 8, 10):
    hs.append(H("c01::c06_proofs::c06_loose_header_%d" % n, crate="h-object", tier="quick" if n <= 8 else "thorough", timeout=900, mem=10, covers=2, extra_args=STUB, thorough_timeout=2400,
                desc="decode::loose_header on arbitrary bytes: value or error, never panics; accepted headers have the shape '<kind> SP .. NUL'",
                inputs="%d arbitrary bytes" % n, bound="unwind 14"))
for n, tier in []:  # tree entry decoder on arbitrary bytes: 24 bytes measured 9 min / 5.6 GB; left out of the tiers to keep them within budget

    hs.append(H("c01::tree_roundtrip::c06_tree_decode_%d" % n, crate="h-object", tier=tier, timeout=2400, mem=12, covers=1 if n < 27 else 2, extra_args=STUB,
                desc="TreeRefIter over arbitrary bytes: entries or an error, never a panic", inputs="%d arbitrary bytes" % n, bound="unwind %d" % (n + 2)))
hs += borrowed("C15", ["c15_validate_3", "c15_validate_5", "c15_sanitize_1", "c15_sanitize_2", "c15_sanitize_3"], "h-core")
hs += borrowed("C29", ["c29_prefix_all", "c29_streaming_short", "c29_streaming_6", "c29_streaming_8", "c29_reader_5"], "h-core")
hs += borrowed("C57", ["c57_nopanic_2", "c57_nopanic_3", "c57_nopanic_4"], "h-core")
hs += borrowed("C07", ["c07_delta_hdr_3", "c07_delta_hdr_9"], "h-pack")

SPEC = {
    "id": "C06",
    "crate": "h-core",
    "harnesses": hs,
    "functions": ["gix_bitmap::ewah::{decode, Vec::for_each_set_bit}", "gix_object::decode::loose_header", "gix_object::TreeRefIter (tree entry decoder; thorough tier)", "gix_validate::{tag::name, reference::{name,name_partial,name_partial_or_sanitize}}",
                  "gix_packetline::decode::{hex_prefix,streaming}", "gix_quote::ansi_c::undo", "gix_pack::data::delta::decode_header_size"],
    "bounds": "per entry point: arbitrary byte strings of the stated small lengths (every byte value); EWAH bitmaps of <= 1 (2 thorough) words",
    "outside": ["every other entry point the property names: git objects (commit/tree/tag decoding), packed-refs, loose refs, reflog lines, config files, index files, attributes/ignore files, mailmap, commit-graph, multi-pack-index, ref advertisements, fetch responses, URLs, refspecs, revision specs, pathspecs, dates, credential messages - their parsers are winnow grammars, operate on memory-mapped files, or go through url/jiff; the smallest symbolic inputs were measured to exceed 600-900 s or 6-20 GB (DESIGN.md section 4)",
                "'never hangs' beyond the unwinding bounds; inputs longer than the bounds", "EWAH run lengths > 0 (legitimately up to 2^38 callbacks)"],
    "stubs": ["alloc::fmt::format -> empty String; gix_quote::ansi_c::undo::Error::new -> constant (error text construction only)"],
    "assumptions": [],
    "manifest": {
        "text": "For the parser entry points that can be encoded - reference/tag name validation and sanitising, packet-line prefix and streaming decode, ANSI-C unquoting, loose-object headers, delta size headers and EWAH bitmaps - the solver shows that every byte string of the bounded length yields a value or an error: no panic, no failed slice index, no arithmetic overflow, no loop beyond its bound. This is a partial claim: most entry points the property lists are outside (stated in the evidence), because their grammars exceed what bounded model checking decides here.",
        "note": "Trusted: Kani/CBMC/CaDiCaL; stubs for error-message construction; partial coverage of the property's list of entry points (see outside_claim in the evidence).",
    },
    "explanation": "Bounded model checking for absence of panics over all short inputs of the encodable parser entry points.",
}
