from runner import Harness as H

P = "c57::proofs::"
STUB = ["-Z", "stubbing"]
CL = {"p": "plain byte", "e": "two-character escape (\\a \\b \\t \\n \\v \\f \\r \\\" \\\\)", "o": "octal escape (other control bytes, 0x7f, >= 0x80)"}
hs = []
for name, tier, mem, to in [("empty", "quick", 8, 600), ("p_t0", "quick", 10, 900), ("p_t1", "thorough", 24, 2400), ("e_t0", "thorough", 24, 2400),
                            ("e_t1", "thorough", 24, 2400), ("o_t0", "thorough", 24, 2400), ("pp_t0", "thorough", 24, 2400)]:
    cls = name.split("_")[0]
    shape = ", ".join(CL[c] for c in cls) if cls != "empty" else "empty name"
    hs.append(H(P + "c57_rt_" + name, tier=tier, timeout=to, mem=mem, covers=1, extra_args=STUB, unwindset=[(r"gix_quote6ansi_c4undo\.0:", len(cls) + 2 if cls != "empty" else 2)],
                desc="undo(quote_c_style(s) ++ tail) == (s, len(quote_c_style(s))) for every s of this shape and every tail",
                inputs="s: one byte per class [%s], every value of the class; tail: %s arbitrary bytes" % (shape, name[-1] if name != "empty" else "1"),
                bound="quoted length concrete per shape; unwind = total length + 1"))
for n in ("0", "a", "nul", "ff", "bs", "sq", "21", "23"):
    hs.append(H(P + "c57_unquoted_" + n, timeout=300, mem=6, covers=1,
                desc="input not starting with '\"' is returned unchanged (borrowed) and fully consumed",
                inputs="empty input" if n == "0" else "6 bytes: first byte concrete (%s), five arbitrary bytes" % n, bound="unwind 8"))
for n in (1, 2, 3, 4):
    hs.append(H(P + "c57_nopanic_%d" % n, tier="quick" if n <= 3 else "thorough", timeout=900, mem=12, covers=2, extra_args=STUB, thorough_timeout=2400,
                desc="undo() on arbitrary bytes after an opening quote returns a value or an error, never panics, never reports more consumed bytes than given",
                inputs="'\"' followed by %d arbitrary bytes" % (n - 1), bound="unwind %d" % (4 if n <= 3 else n + 1)))

SPEC = {
    "id": "C57",
    "crate": "h-core",
    "harnesses": hs,
    "functions": ["gix_quote::ansi_c::undo", "gix_utils::btoi::to_unsigned_with_radix::<u8> (octal)", "bstr find_byteset (memchr portable fallback)"],
    "bounds": "names of <= 2 bytes (3 for selected shapes) with every byte value of each quoting class, tails <= 2 bytes; unquoted input <= 6 bytes; arbitrary quoted input <= 5 bytes",
    "outside": ["names longer than the shapes listed", "error message contents (Error::new is stubbed)"],
    "stubs": ["gix_quote::ansi_c::undo::Error::new -> constant error value (no to_string(), no copy of the input)"],
    "assumptions": ["model_quote_c_style is git's quote_c_style with core.quotePath=true (validated natively: `git ls-files` prints exactly the model's text for every byte value 1..=255 inside a file name)"],
    "manifest": {
        "text": "For every byte string of the listed shapes - each byte ranging over its whole quoting class, so all 256 values are covered - the solver shows that unquoting git's quoted form gives back the bytes and reports exactly the quoted length whatever follows, that unquoted input is returned unchanged, and that arbitrary text after an opening quote never panics. The quoting model is validated against the git binary for every byte value.",
        "note": "Trusted: Kani/CBMC/CaDiCaL; the quote_c_style transcription (validated against git 2.39.5); Error::new stubbed; lengths bounded as listed (output is a growing BString, which limits the reachable length).",
    },
    "explanation": "Differential bounded model checking of gix_quote::ansi_c::undo against git's quote_c_style.",
}
