import runner
from runner import Harness as H

P = "c40::proofs::"
def uw(tot):
    # every loop that walks the input's characters makes at most tot+1 rounds; one UTF-8 scalar is at most 4 bytes
    return [(r"4bstr4utf86decode", 5), (r"4bstr4utf85Chars.*try_fold|4bstr4utf85Chars.*Iterator", tot + 2), (r"gix_validate4path10is_dot_hfs\.0:", tot + 2)]
OPT = "protect_windows/protect_hfs/protect_ntfs: all 8 combinations; symlink or not"
hs = []
for n in (1, 2, 3, 4, 5, 6):
    hs.append(H(P + "c40_component_%d" % n, tier="quick" if n <= 4 else "thorough", timeout=900 if n <= 4 else 2400, mem=8 if n <= 4 else 16, covers=2, thorough_timeout=2400, unwindset=uw(n),
                desc="git's verify_path refuses the component => path::component() refuses it", inputs="all ASCII components of %d bytes without '/', except '.' and '..'; %s" % (n, OPT), bound="unwind 14"))
for name, what, tot in [("dotgit_t3", "'.git' (any case) + 3 arbitrary ASCII bytes", 7), ("git1_t2", "'git~1' (any case) + 2 arbitrary ASCII bytes", 7),
                   ("gitmod_t3", "'gitmod~' (any case) + 3 arbitrary ASCII bytes", 10),
]:
    q = name in ("dotgit_t3", "git1_t2")
    hs.append(H(P + "c40_" + name, tier="quick" if q else "thorough", timeout=900 if q else 2400, mem=8 if q else 24, covers=2, unwindset=uw(tot), desc="git refuses => gitoxide refuses, around the spelled-out names", inputs=what + "; " + OPT, bound="unwind 16"))
hs.append(H(P + "c40_known_backslash_unix", timeout=900, mem=9, covers=0, expect="known_finding", finding="C40-F12", unwindset=uw(6),
            desc="components containing a backslash, protect_ntfs on, protect_windows off", inputs="6 arbitrary ASCII bytes with at least one backslash", bound="unwind 16"))
for pos in (2, 4):
    hs.append(H(P + "c40_hfs_simple_p%d" % pos, timeout=900, mem=8, covers=2, unwindset=uw(7),
                desc="'.git' with one HFS-ignorable code point inserted: git refuses => gitoxide refuses", inputs="insertion position %d; code point: symbolic choice among the 16; %s" % (pos, OPT), bound="unwind 18"))
for name in ("con", "prn", "aux", "nul", "com", "lpt", "conin", "conout"):
    hs.append(H(P + "c40_dev_" + name, tier="quick" if name in ("con", "com") else "thorough", timeout=900, mem=9, covers=2, unwindset=uw(9), desc="Windows device name (any case, digit 1-9 where applicable) + tail is refused with Windows protections on",
                inputs="name '%s' + 2-3 arbitrary ASCII tail bytes" % name, bound="unwind 14"))

SPEC = {
    "id": "C40",
    "crate": "h-core",
    "harnesses": hs,
    "native_replay": {"c40_known_backslash_unix": runner.make_native_replay("h-core", "known_backslash_unix_examples", "components .git\\x, git~1\\, a\\.git, '.GIT \\hooks' with protect_ntfs on and protect_windows off")},
    "functions": ["gix_validate::path::component", "is_dot_hfs", "is_dot_git_ntfs", "is_dot_ntfs", "is_done_ntfs", "is_win_device", "check_win_devices_and_illegal_characters"],
    "bounds": "every ASCII component up to 5 (6 thorough) bytes; the spelled-out names with every case pattern and arbitrary tails of 1-3 bytes; one ignorable code point at the listed positions; all option combinations",
    "outside": ["components containing a backslash while protect_windows is off (known finding C40-F12, checked by its own harness)", "'.' and '..' (refused by gix_fs::Stack / the worktree delegate, not by component())", "non-ASCII bytes other than the 16 HFS-ignorable code points (git treats invalid UTF-8 as end of name in its HFS check)",
                "two or more ignorable code points", "callers in gix-index / gix-worktree / tree editor", "git-for-Windows' is_valid_win32_path beyond reserved device names"],
    "assumptions": ["model_git_refuses is git's verify_path per component (validated against `git update-index --add --cacheinfo` of git 2.39.5 under all protectHFS/protectNTFS settings on > 2000 generated names)",
                    "the device-name list is the property's (CON PRN AUX NUL COM1-9 LPT1-9 CONIN$ CONOUT$, optional spaces, then end/extension/stream)"],
    "manifest": {
        "text": "The solver shows, for every ASCII component up to the bound and for every case/tail/ignorable-code-point variant of the dangerous names, under all option combinations, that whatever git's verify_path refuses is refused by gitoxide too. The refusal model is validated against the git binary. The hand-picked test vectors of the suite cannot cover e.g. every tail after 'git~1' or every position of an ignorable code point.",
        "note": "Trusted: Kani/CBMC/CaDiCaL; the verify_path transcription (validated against git 2.39.5); device-name list from the property text; bounds as listed.",
    },
    "explanation": "Bounded model checking of gix_validate::path::component against a transcription of git's verify_path (implication git refuses => gitoxide refuses).",
}
