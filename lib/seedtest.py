#!/usr/bin/env python3
"""Run the registered check(s) of a seeded breaking change against it.

usage: lib/seedtest.py seeded/<name> [--tier quick|thorough] [--only SUBSTR]

Applies seeded/<name>/patch.diff to /repo (git apply), runs ./check <property> and restores /repo afterwards
(git checkout -- .), whatever happens. The outcome is appended to seeded/<name>/result.json. Development aid:
nothing here is part of a registered check."""
import json, os, subprocess, sys, time

VERIF = os.path.dirname(os.path.dirname(os.path.abspath(__file__)))
REPO = "/repo"


def main():
    args = sys.argv[1:]
    d = os.path.abspath(args[0])
    tier = "quick"
    only = None
    if "--tier" in args:
        tier = args[args.index("--tier") + 1]
    if "--only" in args:
        only = args[args.index("--only") + 1]
    meta = json.load(open(os.path.join(d, "meta.json")))
    pids = meta["property"] if isinstance(meta["property"], list) else [meta["property"]]
    if "--check" in args:
        pids = [args[args.index("--check") + 1]]
    st = subprocess.run(["git", "-C", REPO, "status", "--porcelain", "--untracked-files=no"], capture_output=True, text=True).stdout
    if st.strip():
        sys.exit("refusing to run: /repo has uncommitted changes:\n" + st)
    patch = os.path.join(d, "patch.diff")
    subprocess.run(["git", "-C", REPO, "apply", patch], check=True)
    results = []
    try:
        for pid in pids:
            t0 = time.time()
            cmd = [os.path.join(VERIF, "check"), pid, "--tier", tier] + (["--only", only] if only else [])
            p = subprocess.run(cmd, cwd=VERIF, capture_output=True, text=True)
            lines = [l for l in p.stdout.splitlines() if l.startswith(("VIOLATION", "KNOWN-FINDING", "INCONCLUSIVE", "PROBLEM", "[" + pid))]
            results.append({"check": pid, "tier": tier, "only": only, "exit": p.returncode, "wall_s": round(time.time() - t0), "lines": lines[:12],
                            "detected": p.returncode == 1 and any(l.startswith("VIOLATION property=%s" % pid) for l in lines)})
            print("%s on %s: exit %d, detected=%s" % (pid, os.path.basename(d), p.returncode, results[-1]["detected"]))
            for l in lines[:8]:
                print("   " + l)
    finally:
        subprocess.run(["git", "-C", REPO, "checkout", "--", "."], check=True)
    rp = os.path.join(d, "result.json")
    old = json.load(open(rp)) if os.path.exists(rp) else []
    json.dump(old + results, open(rp, "w"), indent=1)


if __name__ == "__main__":
    main()
