#!/bin/sh
# Runs every kept seeded change against its check, one after the other (each run patches /repo and restores it).
cd "$(dirname "$0")/.."
for d in seeded/C*; do
  [ -f "$d/meta.json" ] || continue
  echo "=== $d $(date +%H:%M:%S)"
  python3 lib/seedtest.py "$d" "$@" 2>&1 | tail -6
done
echo "=== done $(date +%H:%M:%S)"
