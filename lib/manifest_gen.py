#!/usr/bin/env python3
"""Regenerates /verif/MANIFEST.json from lib/specs/* and lib/not_applicable.json."""
import json, os, sys
HERE = os.path.dirname(os.path.abspath(__file__))
sys.path.insert(0, HERE)
import specs

VERIF = os.path.dirname(HERE)
meta = json.load(open(os.path.join(HERE, "manifest_meta.json")))
checks = []
for pid in specs.all_ids():
    s = specs.load(pid)
    m = s["manifest"]
    checks.append({
        "property_id": pid,
        "quick_cmd": "./check %s --tier quick" % pid,
        "thorough_cmd": "./check %s --tier thorough" % pid,
        "evidence_file": "/verif/evidence/%s.json" % pid,
        "replay_cmd_template": "./check %s --replay {path}" % pid,
        "engine": "kani-bmc",
        "level_claimed": {"category": s.get("level", "model_checking"), "text": m["text"], "design_ref": m.get("design_ref", "DESIGN.md §5 " + pid)},
        "level_note": m["note"],
        "technique": m.get("technique", "bounded model checking of the compiled Rust code (Kani 0.68 -> CBMC 6.11 -> CaDiCaL SAT); counterexamples replayed natively"),
    })
claimed = {c["property_id"] for c in checks}
na = [x for x in meta["not_applicable"] if x["property_id"] not in claimed]
man = {
    "version": 1,
    "setup_cmd": "./setup.sh",
    "hooks": meta["hooks"],
    "engines": [{"name": "kani-bmc", "path": "/verif/lib/runner.py", "serves_properties": sorted(claimed),
                 "kind_free_text": "Kani 0.68 proof harnesses in /verif/harness/* with path dependencies on /repo; CBMC 6.11 unrolls, CaDiCaL decides; one SAT query per harness instance; concrete playback for replay"}],
    "checks": checks,
    "notes": meta["notes"],
    "not_applicable": na,
}
json.dump(man, open(os.path.join(VERIF, "MANIFEST.json"), "w"), indent=1)
print("MANIFEST.json: %d checks, %d not_applicable" % (len(checks), len(na)))
all_ids = {json.loads(l)["id"] for l in open(os.path.join(VERIF, "properties.jsonl"))}
missing = all_ids - claimed - {x["property_id"] for x in na}
if missing:
    print("WARNING: neither claimed nor not_applicable:", sorted(missing)); sys.exit(1)
