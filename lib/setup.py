#!/usr/bin/env python3
import os, sys
HERE = os.path.dirname(os.path.abspath(__file__))
sys.path.insert(0, HERE)
import runner, specs
done = set()
rc = 0
for pid in specs.all_ids():
    s = specs.load(pid)
    c = s["crate"]
    if c in done:
        continue
    done.add(c)
    cwd = runner.prepare_crate(c)
    os.makedirs(os.path.join(runner.WORK, "logs"), exist_ok=True)
    logf = os.path.join(runner.WORK, "logs", "setup-%s.log" % c)
    h = s["harnesses"][0]
    r, wall, _ = runner.run_cmd(["cargo", "kani", "--target-dir", runner.target_dir(c), "--only-codegen", "--harness", h.name, "--exact"] + h.extra_args, cwd, 3000, 24, logf)
    print("setup: %s built rc=%s in %.0fs" % (c, r, wall))
    if r != 0:
        print(open(logf, errors="replace").read()[-2000:])
        rc = 1
sys.exit(rc)
