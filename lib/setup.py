#!/usr/bin/env python3
"""Offline setup: pre-build every harness crate (Kani) against /repo's current tree and run the native tests that
validate the reference models against the installed git binary. The oracle validation is reported, not fatal:
its result is written to .work/oracle_validation.json and copied into every evidence file."""
import json, os, subprocess, sys, time
HERE = os.path.dirname(os.path.abspath(__file__))
sys.path.insert(0, HERE)
import runner, specs

done = {}
rc = 0
os.makedirs(os.path.join(runner.WORK, "logs"), exist_ok=True)
for pid in specs.all_ids():
    s = specs.load(pid)
    for h in s["harnesses"]:
        c = h.crate or s["crate"]
        if c in done:
            continue
        done[c] = True
        cwd = runner.prepare_crate(c)
        logf = os.path.join(runner.WORK, "logs", "setup-%s.log" % c)
        r, wall, _ = runner.run_cmd(["cargo", "kani", "--target-dir", runner.target_dir(c), "--only-codegen", "--harness", h.name, "--exact"] + h.extra_args,
                                    cwd, 3000, 24, logf)
        print("setup: %s built rc=%s in %.0fs" % (c, r, wall), flush=True)
        if r != 0:
            print(open(logf, errors="replace").read()[-2000:])
            rc = 1

validation = {}
env = dict(runner.ENV)
env["CARGO_TARGET_DIR"] = os.path.join(runner.TARGET_ROOT, "native")
for c in sorted(done):
    cwd = os.path.join(runner.VERIF, "harness", c)
    t0 = time.time()
    try:
        p = subprocess.run(["cargo", "test", "--offline", "--lib"], cwd=cwd, env=env, capture_output=True, text=True, timeout=2400)
        out = p.stdout + p.stderr
        summary = [l for l in out.splitlines() if l.startswith("test result")]
        validation[c] = {"rc": p.returncode, "summary": summary[-1] if summary else out[-300:], "wall_s": round(time.time() - t0)}
    except Exception as e:  # pragma: no cover
        validation[c] = {"rc": None, "summary": repr(e)}
    print("setup: oracle validation %s: %s" % (c, validation[c]["summary"]), flush=True)
json.dump(validation, open(os.path.join(runner.WORK, "oracle_validation.json"), "w"), indent=1)
sys.exit(rc)
