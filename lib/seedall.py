#!/usr/bin/env python3
"""Runs every kept seeded change against its check(s) as laid out in seeded/plan.json, one after the other
(each run patches /repo and restores it). Development aid."""
import json, os, subprocess, sys, time
V = os.path.dirname(os.path.dirname(os.path.abspath(__file__)))
plan = json.load(open(os.path.join(V, "seeded", "plan.json")))
only_seeds = sys.argv[1:]
for seed, runs in plan.items():
    if seed.startswith("_") or (only_seeds and seed not in only_seeds):
        continue
    d = os.path.join(V, "seeded", seed)
    for check, tier, only in runs:
        cmd = [sys.executable, os.path.join(V, "lib", "seedtest.py"), d, "--tier", tier, "--check", check] + (["--only", only] if only else [])
        print("=== %s %s %s %s %s" % (seed, check, tier, only, time.strftime("%H:%M:%S")), flush=True)
        p = subprocess.run(cmd, capture_output=True, text=True)
        print((p.stdout + p.stderr)[-900:], flush=True)
print("=== done", time.strftime("%H:%M:%S"))
