#!/usr/bin/env python3
"""Re-verify a sub-agent's seeded change in its scratch worktree and, if it holds up, keep it under seeded/<ID>_<X>/.

usage: lib/seedverify.py <ID> <A|B> [--features F] [--crate DIR] [--testcmd 'extra cargo test args for the crate suite']
Checks, in /tmp/wt-<ID>: (1) demo passes on the clean tree, (2) demo fails with the patch, (3) the crate's own
tests pass with the patch. Development aid; not part of any registered check."""
import json, os, re, shutil, subprocess, sys

VERIF = os.path.dirname(os.path.dirname(os.path.abspath(__file__)))
pid, x = sys.argv[1], sys.argv[2]
args = sys.argv[3:]
wt = "/tmp/wt-%s" % pid
meta = json.load(open(os.path.join(wt, "meta_%s.json" % x)))
files = meta.get("files_changed") or []
if isinstance(files, str):
    files = [files]
crate = args[args.index("--crate") + 1] if "--crate" in args else files[0].split("/")[0]
instr = meta.get("demo_instructions", "")
if isinstance(instr, list):
    instr = "\n".join(instr)
m = re.search(r"--features[ =](\S+)", instr)
features = args[args.index("--features") + 1] if "--features" in args else (m.group(1) if m else None)
env = dict(os.environ, CARGO_TARGET_DIR=os.path.join(wt, "target"), CARGO_NET_OFFLINE="true", RUST_BACKTRACE="0")
demo_src = os.path.join(wt, "demo_%s.rs" % x)
demo_dst = os.path.join(wt, crate, "tests", "verif_demo_%s.rs" % x.lower())


def run(cmd, cwd, timeout=3000):
    p = subprocess.run(cmd, cwd=cwd, env=env, capture_output=True, text=True, timeout=timeout)
    return p.returncode, (p.stdout + p.stderr)


def git(*a):
    subprocess.run(["git", "-C", wt] + list(a), check=True, capture_output=True)


project = os.path.join(wt, "demo_%s" % x)


def demo():
    if os.path.isdir(project):
        # a standalone cargo project with path dependencies on the worktree crates
        return run(["cargo", "test", "--offline"], project)
    os.makedirs(os.path.dirname(demo_dst), exist_ok=True)
    shutil.copy(demo_src, demo_dst)
    cmd = ["cargo", "test", "--offline"] + (["--features", features] if features else []) + ["--test", "verif_demo_%s" % x.lower()]
    try:
        return run(cmd, os.path.join(wt, crate))
    finally:
        os.remove(demo_dst)


git("checkout", "--", ".")
report = {}
rc, out = demo()
report["demo_clean"] = {"rc": rc, "tail": out[-400:]}
git("apply", os.path.join(wt, "mutant_%s.diff" % x))
try:
    rc2, out2 = demo()
    report["demo_patched"] = {"rc": rc2, "tail": out2[-600:]}
    extra = args[args.index("--testcmd") + 1].split() if "--testcmd" in args else []
    cmd = ["cargo", "test", "--offline"] + (["--features", features] if features else []) + extra
    rc3, out3 = run(cmd, os.path.join(wt, crate))
    report["crate_tests_patched"] = {"rc": rc3, "cmd": " ".join(cmd), "summary": [l for l in out3.splitlines() if l.startswith("test result")][-6:]}
finally:
    git("checkout", "--", ".")
ok = report["demo_clean"]["rc"] == 0 and report["demo_patched"]["rc"] != 0 and report["crate_tests_patched"]["rc"] == 0
print(json.dumps(report, indent=1)[:2500])
print("VERIFIED" if ok else "NOT VERIFIED")
if ok:
    d = os.path.join(VERIF, "seeded", "%s_%s" % (pid, x))
    os.makedirs(d, exist_ok=True)
    shutil.copy(os.path.join(wt, "mutant_%s.diff" % x), os.path.join(d, "patch.diff"))
    shutil.copy(demo_src, os.path.join(d, "demo.rs"))
    if os.path.isdir(project):
        shutil.copytree(project, os.path.join(d, "demo_project"), dirs_exist_ok=True, ignore=shutil.ignore_patterns("target", "Cargo.lock"))
    meta["property"] = pid[:3]
    meta["verified_by_hand"] = {"where": "scratch worktree %s (removed afterwards)" % wt, "demo_on_clean_tree": "passes", "demo_with_patch": "fails",
                                "crate_tests_with_patch": report["crate_tests_patched"], "demo_crate": crate, "features": features}
    json.dump(meta, open(os.path.join(d, "meta.json"), "w"), indent=1)
sys.exit(0 if ok else 1)
