//! C05 — object ids, hex forms and prefixes are consistent.
use gix_hash::{ObjectId, Prefix};
use std::cmp::Ordering;

/// Reference: the i-th hex digit (0-based) of a 20 byte id.
#[inline]
fn nibble(id: &[u8; 20], i: usize) -> u8 {
    let b = id[i / 2];
    if i % 2 == 0 {
        b >> 4
    } else {
        b & 0x0f
    }
}

#[inline]
fn hex_digit_lower(n: u8) -> u8 {
    if n < 10 {
        b'0' + n
    } else {
        b'a' + (n - 10)
    }
}

/// Reference: value of an ASCII hex digit, any case.
#[inline]
fn hex_val(c: u8) -> Option<u8> {
    match c {
        b'0'..=b'9' => Some(c - b'0'),
        b'a'..=b'f' => Some(c - b'a' + 10),
        b'A'..=b'F' => Some(c - b'A' + 10),
        _ => None,
    }
}

#[cfg(kani)]
mod proofs {
    use super::*;

    /// Every id round-trips through its (lower-case) hex form, and through the upper-cased form.
    #[kani::proof]
    #[kani::unwind(42)]
    pub fn c05_id_hex_roundtrip() {
        let raw: [u8; 20] = kani::any();
        let id = ObjectId::from(raw);
        let mut buf = [0u8; 40];
        let n = id.hex_to_buf(&mut buf);
        assert!(n == 40);
        // digit-exactness of the hex form at a symbolic position (no loop in the harness)
        let i: usize = kani::any();
        kani::assume(i < 40);
        assert!(buf[i] == hex_digit_lower(nibble(&raw, i)));
        let back = ObjectId::from_hex(&buf).expect("own hex form parses");
        assert!(back == id);
        // upper-case one symbolic position: still parses to the same id
        let mut up = buf;
        up[i] = up[i].to_ascii_uppercase();
        let back_up = ObjectId::from_hex(&up).expect("mixed-case hex form parses");
        assert!(back_up == id);
        kani::cover!(buf[i] >= b'a', "hex digit a-f seen");
        kani::cover!(buf[i] <= b'9', "hex digit 0-9 seen");
    }

    /// `from_hex` on arbitrary 40 bytes: Ok iff all bytes are hex digits, value as the model says.
    #[kani::proof]
    #[kani::unwind(42)]
    pub fn c05_id_from_hex_arbitrary() {
        let text: [u8; 40] = kani::any();
        let i: usize = kani::any();
        kani::assume(i < 40);
        let res = ObjectId::from_hex(&text);
        match res {
            Ok(id) => {
                let v = hex_val(text[i]);
                assert!(v.is_some());
                let raw: [u8; 20] = id.as_slice().try_into().unwrap();
                assert!(nibble(&raw, i) == v.unwrap());
            }
            Err(_) => {}
        }
        if hex_val(text[i]).is_none() {
            assert!(res.is_err());
        }
        kani::cover!(res.is_ok(), "valid hex accepted");
        kani::cover!(res.is_err(), "invalid hex rejected");
    }

    /// A prefix cut from id `a` with n digits compares to `b` exactly like the first n hex digits do.
    #[kani::proof]
    #[kani::unwind(22)]
    pub fn c05_prefix_cmp() {
        let a: [u8; 20] = kani::any();
        let b: [u8; 20] = kani::any();
        let n: usize = kani::any();
        kani::assume(n >= 4 && n <= 40);
        let p = Prefix::new(&ObjectId::from(a), n).expect("4..=40 accepted");
        assert!(p.hex_len() == n);
        let got = p.cmp_oid(&ObjectId::from(b));
        // numeric model: compare masked 160-bit values lexicographically as bytes
        let mut am = a;
        let mut bm = b;
        let full = n / 2;
        let odd = n % 2 == 1;
        let mut idx = 0;
        while idx < 20 {
            if idx < full {
            } else if idx == full && odd {
                am[idx] &= 0xf0;
                bm[idx] &= 0xf0;
            } else {
                am[idx] = 0;
                bm[idx] = 0;
            }
            idx += 1;
        }
        let want = am.cmp(&bm);
        assert!(got == want);
        // as_oid is the masked id
        assert!(p.as_oid().as_bytes() == &am[..]);
        kani::cover!(got == Ordering::Equal && n % 2 == 1 && a[n / 2] != b[n / 2], "odd-length equal with differing low nibble");
        kani::cover!(got == Ordering::Less);
        kani::cover!(got == Ordering::Greater && n == 40);
    }

    /// Length limits of `Prefix::new`.
    #[kani::proof]
    #[kani::unwind(22)]
    pub fn c05_prefix_len_errors() {
        let a: [u8; 20] = kani::any();
        let n: usize = kani::any();
        let r = Prefix::new(&ObjectId::from(a), n);
        assert!(r.is_ok() == (n >= 4 && n <= 40));
        kani::cover!(r.is_ok());
        kani::cover!(n > 40 && r.is_err());
        kani::cover!(n < 4 && r.is_err());
    }

    /// `Prefix::from_hex` on L ASCII characters (any case): Ok iff all are hex digits; then it is the
    /// prefix made of exactly these digits, zero-padded, and prints back lower-cased.
    pub fn prefix_from_hex<const L: usize>() {
        let mut text: [u8; L] = kani::any();
        // `&str` input: restrict to ASCII (a non-ASCII str can never be hex; outside the claim).
        let mut k = 0;
        while k < L {
            text[k] &= 0x7f;
            k += 1;
        }
        let i: usize = kani::any();
        kani::assume(i < L);
        // SAFETY: all bytes are < 0x80.
        let s = unsafe { std::str::from_utf8_unchecked(&text) };
        let res = Prefix::from_hex(s);
        let mut all_hex = true;
        k = 0;
        while k < L {
            all_hex &= hex_val(text[k]).is_some();
            k += 1;
        }
        assert!(res.is_ok() == all_hex, "accepted exactly when every character is a hex digit (either case)");
        if hex_val(text[i]).is_none() {
            assert!(matches!(res, Err(gix_hash::prefix::from_hex::Error::Invalid)));
        }
        if let Ok(p) = res {
            assert!(hex_val(text[i]).is_some());
            assert!(p.hex_len() == L);
            let raw: [u8; 20] = p.as_oid().as_bytes().try_into().unwrap();
            assert!(nibble(&raw, i) == hex_val(text[i]).unwrap());
            // everything behind the prefix is zero
            if L < 40 {
                let z: usize = kani::any();
                kani::assume(z >= L && z < 40);
                assert!(nibble(&raw, z) == 0);
            }
            // it equals the prefix cut from its own oid
            let q = Prefix::new(p.as_oid(), L).unwrap();
            assert!(q.as_oid().as_bytes() == p.as_oid().as_bytes() && q.hex_len() == L);
            // Equal to an id only if that id has the same digit at i (and, by prefix_cmp, iff all agree)
            let other: [u8; 20] = kani::any();
            if p.cmp_oid(&ObjectId::from(other)) == Ordering::Equal {
                assert!(nibble(&other, i) == hex_val(text[i]).unwrap());
            }
            // prints back as the lower-cased digits
            let mut hex = [0u8; 40];
            let n = p.as_oid().hex_to_buf(&mut hex);
            assert!(n == 40);
            assert!(hex[i] == text[i].to_ascii_lowercase());
            kani::cover!(text[i] >= b'A' && text[i] <= b'F', "upper-case digit accepted");
            kani::cover!(text[i] >= b'a', "lower-case digit accepted");
        }
        kani::cover!(res.is_err(), "rejected");
    }

    macro_rules! from_hex_instances {
        ($($name:ident = $l:literal),*) => {$(
            #[kani::proof]
            #[kani::unwind(42)]
            pub fn $name() { prefix_from_hex::<$l>() }
        )*};
    }
    from_hex_instances!(
        c05_from_hex_04 = 4, c05_from_hex_05 = 5, c05_from_hex_06 = 6, c05_from_hex_07 = 7,
        c05_from_hex_08 = 8, c05_from_hex_09 = 9, c05_from_hex_10 = 10, c05_from_hex_11 = 11,
        c05_from_hex_12 = 12, c05_from_hex_13 = 13, c05_from_hex_14 = 14, c05_from_hex_15 = 15,
        c05_from_hex_16 = 16, c05_from_hex_17 = 17, c05_from_hex_18 = 18, c05_from_hex_19 = 19,
        c05_from_hex_20 = 20, c05_from_hex_21 = 21, c05_from_hex_22 = 22, c05_from_hex_23 = 23,
        c05_from_hex_24 = 24, c05_from_hex_25 = 25, c05_from_hex_26 = 26, c05_from_hex_27 = 27,
        c05_from_hex_28 = 28, c05_from_hex_29 = 29, c05_from_hex_30 = 30, c05_from_hex_31 = 31,
        c05_from_hex_32 = 32, c05_from_hex_33 = 33, c05_from_hex_34 = 34, c05_from_hex_35 = 35,
        c05_from_hex_36 = 36, c05_from_hex_37 = 37, c05_from_hex_38 = 38, c05_from_hex_39 = 39,
        c05_from_hex_40 = 40
    );

    /// Length limits of `Prefix::from_hex`.
    #[kani::proof]
    #[kani::unwind(4)]
    pub fn c05_from_hex_len_errors() {
        assert!(matches!(Prefix::from_hex("abc"), Err(gix_hash::prefix::from_hex::Error::TooShort { hex_len: 3 })));
        assert!(matches!(Prefix::from_hex(""), Err(gix_hash::prefix::from_hex::Error::TooShort { hex_len: 0 })));
        let long = "00000000000000000000000000000000000000000";
        assert!(matches!(Prefix::from_hex(long), Err(gix_hash::prefix::from_hex::Error::TooLong { hex_len: 41 })));
        kani::cover!(true);
    }
}
