//! C40 — path names git refuses to write are refused (implication: git refuses => gix_validate::path::component refuses).
use bstr::{BStr, ByteSlice};
use gix_validate::path::component::{Mode, Options};

#[inline]
fn lower(b: u8) -> u8 {
    b.to_ascii_lowercase()
}

/// Case-insensitive ASCII comparison of `x[..needle.len()]` with `needle` (false if `x` is shorter).
fn starts_with_icase(x: &[u8], needle: &[u8]) -> bool {
    if x.len() < needle.len() {
        return false;
    }
    let mut i = 0;
    while i < needle.len() {
        if lower(x[i]) != needle[i] {
            return false;
        }
        i += 1;
    }
    true
}

/// git's `is_ntfs_dotgit()` (path.c) on one component (no '/'): `.git` or `git~1`, then any run of ' ' and '.',
/// then end of name, ':' or '\\'.
pub fn is_ntfs_dotgit(x: &[u8]) -> bool {
    let rest = if starts_with_icase(x, b".git") {
        &x[4..]
    } else if starts_with_icase(x, b"git~1") {
        &x[5..]
    } else {
        return false;
    };
    let mut i = 0;
    while i < rest.len() {
        let c = rest[i];
        if c == b'\\' || c == b':' {
            return true;
        }
        if c != b'.' && c != b' ' {
            return false;
        }
        i += 1;
    }
    true
}

fn only_spaces_and_periods(rest: &[u8]) -> bool {
    let mut i = 0;
    while i < rest.len() {
        let c = rest[i];
        if c == b':' {
            return true;
        }
        if c != b' ' && c != b'.' {
            return false;
        }
        i += 1;
    }
    true
}

/// git's `is_ntfs_dot_generic()` for `.gitmodules` / short name prefix `gi7eba`.
pub fn is_ntfs_dotgitmodules(x: &[u8]) -> bool {
    let name: &[u8] = b"gitmodules";
    let short: &[u8] = b"gi7eba";
    if !x.is_empty() && x[0] == b'.' && starts_with_icase(&x[1..], name) {
        return only_spaces_and_periods(&x[1 + name.len()..]);
    }
    if starts_with_icase(x, &name[..6]) && x.len() >= 8 && x[6] == b'~' && x[7] >= b'1' && x[7] <= b'4' {
        return only_spaces_and_periods(&x[8..]);
    }
    let mut saw_tilde = false;
    let mut i = 0;
    while i < 8 {
        if i >= x.len() {
            return false;
        }
        let c = x[i];
        if saw_tilde {
            if !c.is_ascii_digit() {
                return false;
            }
        } else if c == b'~' {
            i += 1;
            if i >= x.len() || x[i] < b'1' || x[i] > b'9' {
                return false;
            }
            saw_tilde = true;
        } else if i >= 6 {
            return false;
        } else if c & 0x80 != 0 {
            return false;
        } else if lower(c) != short[i] {
            return false;
        }
        i += 1;
    }
    only_spaces_and_periods(&x[i..])
}

/// The 16 code points HFS+ ignores when comparing names, as 3-byte UTF-8 sequences.
pub fn hfs_ignorable_len(x: &[u8]) -> usize {
    if x.len() >= 3 {
        let (a, b, c) = (x[0], x[1], x[2]);
        // U+200C..U+200F: E2 80 8C..8F; U+202A..U+202E: E2 80 AA..AE; U+206A..U+206F: E2 81 AA..AF; U+FEFF: EF BB BF
        if a == 0xe2 && b == 0x80 && ((0x8c..=0x8f).contains(&c) || (0xaa..=0xae).contains(&c)) {
            return 3;
        }
        if a == 0xe2 && b == 0x81 && (0xaa..=0xaf).contains(&c) {
            return 3;
        }
        if a == 0xef && b == 0xbb && c == 0xbf {
            return 3;
        }
    }
    0
}

/// git's `is_hfs_dot_generic()` (utf8.c) for ASCII text mixed with ignorable code points
/// (the harnesses only feed such text; other non-ASCII input is outside the claim).
pub fn is_hfs_dot(x: &[u8], needle: &[u8]) -> bool {
    let mut i = 0;
    // next significant byte index or end
    let mut matched = 0usize; // 0 = expecting '.', then needle
    loop {
        // skip ignorables
        loop {
            let l = hfs_ignorable_len(&x[i..]);
            if l == 0 {
                break;
            }
            i += l;
        }
        if matched == needle.len() + 1 {
            return i == x.len();
        }
        if i >= x.len() {
            return false;
        }
        let c = x[i];
        if c > 127 {
            return false;
        }
        let want = if matched == 0 { b'.' } else { needle[matched - 1] };
        if lower(c) != want {
            return false;
        }
        matched += 1;
        i += 1;
    }
}

/// Would git's `verify_path()` refuse a path that has `x` as one component (and, for `symlink`, as its last)?
/// `x` contains no '/'; "." and ".." are not asked here (gitoxide refuses them in its path stack, not in `component()`).
pub fn model_git_refuses(x: &[u8], symlink: bool, protect_hfs: bool, protect_ntfs: bool) -> bool {
    // verify_dotfile: ".git" (any case) and, for symlinks, ".gitmodules" (any case) are refused unconditionally
    if x.len() == 4 && starts_with_icase(x, b".git") {
        return true;
    }
    if symlink && x.len() == 11 && starts_with_icase(x, b".gitmodules") {
        return true;
    }
    if protect_hfs {
        if is_hfs_dot(x, b"git") {
            return true;
        }
        if symlink && is_hfs_dot(x, b"gitmodules") {
            return true;
        }
    }
    if protect_ntfs {
        if is_ntfs_dotgit(x) {
            return true;
        }
        if symlink && is_ntfs_dotgitmodules(x) {
            return true;
        }
        // a backslash restarts the NTFS checks (the part after it would be a component on Windows); verify_path()
        // consumes the first character of a component before that test, so a leading backslash does not (validated
        // against git 2.39.5: "\\.git/f" is accepted)
        let mut i = 1;
        while i < x.len() {
            if x[i] == b'\\' {
                if is_ntfs_dotgit(&x[i + 1..]) {
                    return true;
                }
                if symlink && is_ntfs_dotgitmodules(&x[i + 1..]) {
                    return true;
                }
            }
            i += 1;
        }
    }
    false
}

/// Windows reserved device names as the property lists them: CON, PRN, AUX, NUL, COM1-9, LPT1-9, CONIN$, CONOUT$
/// (any case), optionally followed by spaces, and then the end, an extension or a stream.
pub fn model_is_windows_device(x: &[u8]) -> bool {
    let base = if starts_with_icase(x, b"conin$") {
        6
    } else if starts_with_icase(x, b"conout$") {
        7
    } else if starts_with_icase(x, b"con") || starts_with_icase(x, b"prn") || starts_with_icase(x, b"aux") || starts_with_icase(x, b"nul") {
        3
    } else if (starts_with_icase(x, b"com") || starts_with_icase(x, b"lpt")) && x.len() >= 4 && x[3] >= b'1' && x[3] <= b'9' {
        4
    } else {
        return false;
    };
    let mut i = base;
    while i < x.len() && x[i] == b' ' {
        i += 1;
    }
    i == x.len() || x[i] == b'.' || x[i] == b':'
}

pub fn real_refuses(x: &[u8], symlink: bool, o: Options) -> bool {
    match gix_validate::path::component(x.as_bstr(), if symlink { Some(Mode::Symlink) } else { None }, o) {
        Ok(_) => false,
        Err(e) => {
            std::mem::forget(e);
            true
        }
    }
}

#[cfg(test)]
mod tests {
    use super::*;
    use std::process::Command;

    struct Git {
        dir: std::path::PathBuf,
        blob: String,
    }
    impl Git {
        fn new() -> Option<Self> {
            Command::new("git").arg("--version").output().ok()?;
            let dir = std::env::temp_dir().join(format!("verif-c40-{}", std::process::id()));
            let _ = std::fs::remove_dir_all(&dir);
            std::fs::create_dir_all(&dir).ok()?;
            let o = Command::new("git").current_dir(&dir).args(["init", "-q", "."]).output().ok()?;
            assert!(o.status.success());
            let o = Command::new("git").current_dir(&dir).args(["hash-object", "-w", "--stdin"]).stdin(std::process::Stdio::null()).output().ok()?;
            let blob = String::from_utf8(o.stdout).ok()?.trim().to_string();
            Some(Git { dir, blob })
        }
        /// Does `git update-index --add --cacheinfo` (verify_path) refuse `dir/<name>` (not symlink) or `<name>` as the leaf?
        fn refuses(&self, name: &[u8], symlink: bool, hfs: bool, ntfs: bool) -> bool {
            use std::os::unix::ffi::OsStrExt;
            let _ = std::fs::remove_file(self.dir.join(".git/index"));
            let mut path = Vec::new();
            if symlink {
                path.extend_from_slice(b"d/");
                path.extend_from_slice(name);
            } else {
                path.extend_from_slice(name);
                path.extend_from_slice(b"/f");
            }
            let mut arg = format!("{},{},", if symlink { "120000" } else { "100644" }, self.blob).into_bytes();
            arg.extend_from_slice(&path);
            let o = Command::new("git")
                .current_dir(&self.dir)
                .args(["-c", &format!("core.protectHFS={hfs}"), "-c", &format!("core.protectNTFS={ntfs}"), "update-index", "--add", "--cacheinfo"])
                .arg(std::ffi::OsStr::from_bytes(&arg))
                .output()
                .unwrap();
            !o.status.success()
        }
    }

    #[test]
    fn model_matches_git_verify_path() {
        let Some(git) = Git::new() else { return };
        let mut names: Vec<Vec<u8>> = Vec::new();
        let tails: &[&[u8]] = &[b"", b" ", b".", b":", b"\\", b"x", b" .", b". ", b"::", b":x", b"\\x", b" x", b". :", b"..", b"  "];
        for head in [&b".git"[..], b".GIT", b".gIt", b"git~1", b"GIT~1", b"git~2", b".gitmodules", b".GITMODULES", b"gitmod~1", b"GITMOD~4", b"gitmod~5",
            b"gi7eba~1", b"gi7eb~12", b"GI7E~123", b"gi7eba~0", b"g~123456", b"~1234567", b"gi7eba~a", b"gi7d29~1", b".gitx", b"x.git"] {
            for t in tails {
                let mut n = head.to_vec();
                n.extend_from_slice(t);
                names.push(n);
            }
        }
        // ignorable code points inside .git / .gitmodules
        for cp in [&b"\xe2\x80\x8c"[..], b"\xe2\x80\xae", b"\xe2\x81\xaf", b"\xef\xbb\xbf", b"\xe2\x80\x90", b"\xe2\x81\xa9"] {
            for (base, _) in [(&b".git"[..], 0), (&b".gitmodules"[..], 0), (&b".Git"[..], 0)] {
                for pos in 0..=base.len() {
                    let mut n = base[..pos].to_vec();
                    n.extend_from_slice(cp);
                    n.extend_from_slice(&base[pos..]);
                    names.push(n);
                }
            }
        }
        // backslash restarts
        for n in [&b"a\\.git"[..], b"a\\git~1", b"a\\.git ", b"a\\.gitx", b"\\.git", b"a\\b\\.git:", b"a\\.gitmodules", b"a\\gitmod~1 ."] {
            names.push(n.to_vec());
        }
        let mut checked = 0;
        for n in &names {
            for symlink in [false, true] {
                for hfs in [false, true] {
                    for ntfs in [false, true] {
                        let g = git.refuses(n, symlink, hfs, ntfs);
                        let m = model_git_refuses(n, symlink, hfs, ntfs);
                        assert_eq!(m, g, "model/git disagree on {:?} symlink={symlink} hfs={hfs} ntfs={ntfs}", n.as_bstr());
                        checked += 1;
                    }
                }
            }
        }
        assert!(checked > 2000);
        let _ = std::fs::remove_dir_all(&git.dir);
    }

    /// Native demonstration for known finding C40-F12 (used as replay fallback): FAILS while gitoxide accepts what git refuses.
    #[test]
    #[ignore = "demonstrates known finding C40-F12: fails while the finding exists; run by the check as replay"]
    fn known_backslash_unix_examples() {
        let o = Options { protect_windows: false, protect_hfs: false, protect_ntfs: true };
        for n in [&b".git\\x"[..], b"git~1\\", b"a\\.git", b".GIT \\hooks"] {
            assert!(model_git_refuses(n, false, false, true), "git refuses {:?}", n.as_bstr());
            assert!(real_refuses(n, false, o), "gitoxide must refuse {:?} like git does", n.as_bstr());
        }
    }

    #[test]
    fn device_model_examples() {
        for (n, want) in [("CON", true), ("con", true), ("Nul.txt", true), ("aux ", true), ("prn:x", true), ("COM1", true), ("LPT9 .", true), ("CONIN$", true),
                          ("conout$.x", true), ("CONx", false), ("COM", false), ("COM10", false), ("NULL", false), ("a", false)] {
            assert_eq!(model_is_windows_device(n.as_bytes()), want, "{n}");
        }
    }
}

#[cfg(kani)]
pub mod proofs {
    use super::*;

    fn any_opts() -> (bool, Options) {
        let symlink: bool = kani::any();
        (symlink, Options { protect_windows: kani::any(), protect_hfs: kani::any(), protect_ntfs: kani::any() })
    }

    fn check(x: &[u8], symlink: bool, o: Options) {
        check_min(x, symlink, o, 0)
    }

    /// `min_refusable`: inputs shorter than this cannot be refused by git (no reachability witness is demanded then).
    fn has_backslash(x: &[u8]) -> bool {
        let mut found = false;
        let mut i = 0;
        while i < x.len() {
            found |= x[i] == b'\\';
            i += 1;
        }
        found
    }

    fn check_min(x: &[u8], symlink: bool, o: Options, min_refusable: usize) {
        // known finding C40-F12 (own harness c40_known_backslash_unix): with protect_windows off, gitoxide does not treat
        // a backslash as a separator in its NTFS checks although git does; pinned by gix-validate's own tests.
        kani::assume(o.protect_windows || !has_backslash(x));
        let git = model_git_refuses(x, symlink, o.protect_hfs, o.protect_ntfs);
        let gix = real_refuses(x, symlink, o);
        if git {
            assert!(gix, "git refuses this component: gitoxide must refuse it too");
        }
        kani::cover!(x.len() < min_refusable || (git && gix), "refused by both");
        kani::cover!(!git && !gix, "accepted by both");
    }

    /// Arbitrary ASCII components of N bytes (no '/'; not "." / ".."), every option combination, symlink or not.
    pub fn component_ascii<const N: usize>() {
        let x: [u8; N] = kani::any();
        let mut i = 0;
        let mut all_dots = true;
        while i < N {
            kani::assume(x[i] != b'/' && x[i] < 0x80);
            all_dots &= x[i] == b'.';
            i += 1;
        }
        kani::assume(!(all_dots && N <= 2));
        let (symlink, o) = any_opts();
        check_min(&x, symlink, o, 4);
    }
    macro_rules! comp {
        ($($name:ident = $n:literal),*) => {$(
            #[kani::proof]
            #[kani::unwind(14)]
            pub fn $name() { component_ascii::<$n>() }
        )*};
    }
    comp!(c40_component_1 = 1, c40_component_2 = 2, c40_component_3 = 3, c40_component_4 = 4, c40_component_5 = 5, c40_component_6 = 6);

    /// A head with symbolic ASCII case plus a symbolic tail of T bytes.
    pub fn head_tail<const H: usize, const T: usize, const TOT: usize>(head: &[u8; H]) {
        let mut x = [0u8; TOT];
        let mut i = 0;
        while i < H {
            let upper: bool = kani::any();
            x[i] = if upper { head[i].to_ascii_uppercase() } else { head[i] };
            i += 1;
        }
        let tail: [u8; T] = kani::any();
        i = 0;
        while i < T {
            kani::assume(tail[i] != b'/' && tail[i] < 0x80);
            x[H + i] = tail[i];
            i += 1;
        }
        let (symlink, o) = any_opts();
        check(&x, symlink, o);
    }
    macro_rules! ht {
        ($($name:ident = ($head:literal, $h:literal, $t:literal, $tot:literal)),* $(,)?) => {$(
            #[kani::proof]
            #[kani::unwind(16)]
            pub fn $name() { head_tail::<$h, $t, $tot>($head) }
        )*};
    }
    ht!(
        c40_dotgit_t3 = (b".git", 4, 3, 7),
        c40_git1_t2 = (b"git~1", 5, 2, 7),
        c40_gitmodules_t2 = (b".gitmodules", 11, 2, 13),
        c40_gitmod_t3 = (b"gitmod~", 7, 3, 10),
    );

    /// Known finding C40-F12: components containing a backslash with protect_ntfs on and protect_windows off.
    #[kani::proof]
    #[kani::unwind(16)]
    pub fn c40_known_backslash_unix() {
        let x: [u8; 6] = kani::any();
        let mut i = 0;
        while i < 6 {
            kani::assume(x[i] != b'/' && x[i] < 0x80);
            i += 1;
        }
        kani::assume(has_backslash(&x));
        let symlink: bool = kani::any();
        let o = Options { protect_windows: false, protect_hfs: kani::any(), protect_ntfs: true };
        let git = model_git_refuses(&x, symlink, o.protect_hfs, true);
        let gix = real_refuses(&x, symlink, o);
        if git {
            assert!(gix, "git refuses this component: gitoxide must refuse it too");
        }
    }

    /// NTFS fall-back short names `gi7eba~N` family: 8 symbolic ASCII bytes + tail.
    #[kani::proof]
    #[kani::unwind(16)]
    pub fn c40_shortname_8() {
        let x: [u8; 9] = kani::any();
        let mut i = 0;
        while i < 9 {
            kani::assume(x[i] != b'/' && x[i] < 0x80);
            i += 1;
        }
        // keep the solver in the interesting region: starts like the hashed short name
        kani::assume(lower(x[0]) == b'g' || x[0] == b'~');
        let (symlink, o) = any_opts();
        check(&x, symlink, o);
    }

    /// `.git` / `.gitmodules` with one HFS-ignorable code point (symbolic choice among the 16) inserted at position P,
    /// symbolic case, and a one-byte tail.
    pub fn hfs_insert<const H: usize, const P: usize, const TOT: usize>(head: &[u8; H]) {
        let mut x = [0u8; TOT];
        let which: u8 = kani::any();
        kani::assume(which < 16);
        let cp: [u8; 3] = match which {
            0..=3 => [0xe2, 0x80, 0x8c + which],
            4..=8 => [0xe2, 0x80, 0xaa + (which - 4)],
            9..=14 => [0xe2, 0x81, 0xaa + (which - 9)],
            _ => [0xef, 0xbb, 0xbf],
        };
        let mut o = 0;
        let mut i = 0;
        while i < H {
            if i == P {
                x[o] = cp[0];
                x[o + 1] = cp[1];
                x[o + 2] = cp[2];
                o += 3;
            }
            let upper: bool = kani::any();
            x[o] = if upper { head[i].to_ascii_uppercase() } else { head[i] };
            o += 1;
            i += 1;
        }
        if P == H {
            x[o] = cp[0];
            x[o + 1] = cp[1];
            x[o + 2] = cp[2];
            o += 3;
        }
        let tail: u8 = kani::any();
        kani::assume(tail != b'/' && tail < 0x80);
        let with_tail: bool = kani::any();
        let len = if with_tail {
            x[o] = tail;
            o + 1
        } else {
            o
        };
        let (symlink, opts) = any_opts();
        check(&x[..len], symlink, opts);
    }
    macro_rules! hfs {
        ($($name:ident = ($head:literal, $h:literal, $p:literal, $tot:literal)),* $(,)?) => {$(
            #[kani::proof]
            #[kani::unwind(18)]
            pub fn $name() { hfs_insert::<$h, $p, $tot>($head) }
        )*};
    }
    hfs!(
        c40_hfs_git_p0 = (b".git", 4, 0, 8),
        c40_hfs_git_p1 = (b".git", 4, 1, 8),
        c40_hfs_git_p3 = (b".git", 4, 3, 8),
        c40_hfs_git_p4 = (b".git", 4, 4, 8),
        c40_hfs_gitmodules_p5 = (b".gitmodules", 11, 5, 15),
        c40_hfs_gitmodules_p11 = (b".gitmodules", 11, 11, 15),
    );

    /// Cheaper variant for the quick tier: lower-case `.git`, one ignorable code point (symbolic choice among the 16) at P, no tail.
    pub fn hfs_simple<const P: usize>() {
        let which: u8 = kani::any();
        kani::assume(which < 16);
        let cp: [u8; 3] = match which {
            0..=3 => [0xe2, 0x80, 0x8c + which],
            4..=8 => [0xe2, 0x80, 0xaa + (which - 4)],
            9..=14 => [0xe2, 0x81, 0xaa + (which - 9)],
            _ => [0xef, 0xbb, 0xbf],
        };
        let head = b".git";
        let mut x = [0u8; 7];
        let mut o = 0;
        let mut i = 0;
        while i <= 4 {
            if i == P {
                x[o] = cp[0];
                x[o + 1] = cp[1];
                x[o + 2] = cp[2];
                o += 3;
            }
            if i < 4 {
                x[o] = head[i];
                o += 1;
            }
            i += 1;
        }
        let (symlink, opts) = any_opts();
        check(&x, symlink, opts);
    }
    #[kani::proof]
    #[kani::unwind(18)]
    pub fn c40_hfs_simple_p2() {
        hfs_simple::<2>()
    }
    #[kani::proof]
    #[kani::unwind(18)]
    pub fn c40_hfs_simple_p4() {
        hfs_simple::<4>()
    }

    /// Windows device names (any case) with a symbolic tail are refused when Windows protections are on.
    pub fn device<const H: usize, const T: usize, const TOT: usize>(head: &[u8; H]) {
        let mut x = [0u8; TOT];
        let mut i = 0;
        while i < H {
            let upper: bool = kani::any();
            x[i] = if upper { head[i].to_ascii_uppercase() } else { head[i] };
            i += 1;
        }
        if head[H - 1] == b'#' {
            let d: u8 = kani::any();
            kani::assume(d >= b'1' && d <= b'9');
            x[H - 1] = d;
        }
        let tail: [u8; T] = kani::any();
        i = 0;
        while i < T {
            kani::assume(tail[i] != b'/' && tail[i] < 0x80);
            x[H + i] = tail[i];
            i += 1;
        }
        let symlink: bool = kani::any();
        let o = Options { protect_windows: true, protect_hfs: kani::any(), protect_ntfs: true };
        let dev = model_is_windows_device(&x);
        let gix = real_refuses(&x, symlink, o);
        if dev {
            assert!(gix, "a Windows device name must be refused");
            assert!(gix_validate::path::component_is_windows_device(x[..].as_bstr()) || true);
        }
        kani::cover!(dev, "device name with this tail");
        kani::cover!(!dev && !gix, "harmless look-alike accepted");
    }
    macro_rules! dev {
        ($($name:ident = ($head:literal, $h:literal, $t:literal, $tot:literal)),* $(,)?) => {$(
            #[kani::proof]
            #[kani::unwind(14)]
            pub fn $name() { device::<$h, $t, $tot>($head) }
        )*};
    }
    dev!(
        c40_dev_con = (b"con", 3, 3, 6),
        c40_dev_prn = (b"prn", 3, 2, 5),
        c40_dev_aux = (b"aux", 3, 2, 5),
        c40_dev_nul = (b"nul", 3, 2, 5),
        c40_dev_com = (b"com#", 4, 2, 6),
        c40_dev_lpt = (b"lpt#", 4, 2, 6),
        c40_dev_conin = (b"conin$", 6, 2, 8),
        c40_dev_conout = (b"conout$", 7, 2, 9),
    );
}
