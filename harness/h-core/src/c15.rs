//! C15 — reference names are validated like git; sanitising always yields a valid name.
//! (Also carries the C06 "never panics" claim for gix-validate's name entry points.)
use bstr::{BStr, BString, ByteSlice};

/// Transcription of git's `check_refname_format(name, REFNAME_ALLOW_ONELEVEL)` (refs.c, git 2.39),
/// for byte strings (a NUL byte cannot occur in git's C string; it is treated as a forbidden control byte).
pub fn model_check_refname_onelevel(x: &[u8]) -> bool {
    let n = x.len();
    if n == 1 && x[0] == b'@' {
        return false;
    }
    let mut comp_start = 0usize;
    let mut last: u8 = 0;
    let mut i = 0usize;
    while i <= n {
        let at_end = i == n;
        let ch = if at_end { 0 } else { x[i] };
        if at_end || ch == b'/' {
            // end of component [comp_start, i)
            let len = i - comp_start;
            if len == 0 {
                return false;
            }
            if x[comp_start] == b'.' {
                return false;
            }
            if len >= 5
                && x[i - 5] == b'.'
                && x[i - 4] == b'l'
                && x[i - 3] == b'o'
                && x[i - 2] == b'c'
                && x[i - 1] == b'k'
            {
                return false;
            }
            comp_start = i + 1;
            last = 0;
        } else {
            match ch {
                b'.' => {
                    if last == b'.' {
                        return false;
                    }
                }
                b'{' => {
                    if last == b'@' {
                        return false;
                    }
                }
                0..=0x1f | 0x7f | b' ' | b'~' | b'^' | b':' | b'?' | b'[' | b'\\' | b'*' => return false,
                _ => {}
            }
            last = ch;
        }
        i += 1;
    }
    if x[n - 1] == b'.' {
        return false;
    }
    true
}

/// gitoxide's documented rule for complete names: as above, and one-level names consist of `[A-Z_]` only.
pub fn model_complete_name(x: &[u8]) -> bool {
    if !model_check_refname_onelevel(x) {
        return false;
    }
    let mut saw_slash = false;
    let mut all_upper = true;
    let mut i = 0;
    while i < x.len() {
        saw_slash |= x[i] == b'/';
        all_upper &= x[i].is_ascii_uppercase() || x[i] == b'_';
        i += 1;
    }
    saw_slash || all_upper
}

#[cfg(test)]
mod tests {
    use super::*;
    use std::process::Command;

    fn git_ok(name: &[u8]) -> Option<bool> {
        use std::os::unix::ffi::OsStrExt;
        if name.contains(&0) || name.first() == Some(&b'-') {
            return None; // cannot be passed as an argument / parsed as an option
        }
        let out = Command::new("git")
            .arg("check-ref-format")
            .arg("--allow-onelevel")
            .arg(std::ffi::OsStr::from_bytes(name))
            .output()
            .ok()?;
        Some(out.status.success())
    }

    /// The model is git's: exhaustive comparison with the installed git binary over an alphabet rich in special characters.
    #[test]
    fn model_matches_git_check_ref_format() {
        if Command::new("git").arg("--version").output().is_err() {
            eprintln!("git not available: skipped");
            return;
        }
        let alphabet: &[u8] = b"a./@{*:~ \x7f\x01\xc3Ak-";
        let mut checked = 0;
        for len in 0..=3usize {
            let mut idx = vec![0usize; len];
            loop {
                let s: Vec<u8> = idx.iter().map(|i| alphabet[*i]).collect();
                if let Some(g) = git_ok(&s) {
                    assert_eq!(model_check_refname_onelevel(&s), g, "disagreement on {:?}", s.as_bstr());
                    checked += 1;
                }
                let mut k = 0;
                while k < len {
                    idx[k] += 1;
                    if idx[k] < alphabet.len() {
                        break;
                    }
                    idx[k] = 0;
                    k += 1;
                }
                if k == len {
                    break;
                }
            }
        }
        for s in [
            &b"a.lock"[..], b"a.lock/b", b"a/b.lock", b"x.lockk", b"refs/heads/a.lock.b", b".lock", b"a/.lock", b"lock", b"a..lock",
            b"refs/heads/@", b"@/a", b"a/@", b"@@", b"a.", b"a./b", b"a/b.", b"HEAD", b"refs/heads/main", b"a//b", b"/a", b"a/",
        ] {
            if let Some(g) = git_ok(s) {
                assert_eq!(model_check_refname_onelevel(s), g, "disagreement on {:?}", s.as_bstr());
                checked += 1;
            }
        }
        assert!(checked > 3000);
    }
}

#[cfg(kani)]
pub mod proofs {
    use super::*;

    fn is_at<const N: usize>(x: &[u8; N]) -> bool {
        N == 1 && x[0] == b'@'
    }

    /// `name_partial(x)` is Ok exactly when git's check_refname_format(ALLOW_ONELEVEL) accepts; `name(x)` adds the one-level rule;
    /// `tag::name` is the same validator. No panic for any input.
    pub fn validate<const N: usize>() {
        let x: [u8; N] = kani::any();
        kani::assume(!is_at(&x)); // the lone "@" is known finding C15-F11, checked separately
        let want = model_check_refname_onelevel(&x);
        let got = match gix_validate::reference::name_partial(x[..].as_bstr()) {
            Ok(_) => true,
            Err(e) => {
                std::mem::forget(e);
                false
            }
        };
        assert!(got == want, "name_partial agrees with git check-ref-format --allow-onelevel");
        let got_tag = match gix_validate::tag::name(x[..].as_bstr()) {
            Ok(_) => true,
            Err(e) => {
                std::mem::forget(e);
                false
            }
        };
        assert!(got_tag == want, "tag::name is the same validator");
        let got_full = match gix_validate::reference::name(x[..].as_bstr()) {
            Ok(_) => true,
            Err(e) => {
                std::mem::forget(e);
                false
            }
        };
        assert!(got_full == model_complete_name(&x), "complete names: valid and (multi-level or [A-Z_]+)");
        kani::cover!(N == 0 || got, "some name accepted");
        kani::cover!(!got, "some name rejected");
    }

    macro_rules! validate_instances {
        ($($name:ident = $n:literal),*) => {$(
            #[kani::proof]
            #[kani::unwind(12)]
            pub fn $name() { validate::<$n>() }
        )*};
    }
    validate_instances!(c15_validate_0 = 0, c15_validate_1 = 1, c15_validate_2 = 2, c15_validate_3 = 3, c15_validate_4 = 4,
        c15_validate_5 = 5, c15_validate_6 = 6, c15_validate_7 = 7, c15_validate_8 = 8);

    /// Known finding F11: the lone "@" — git refuses it, gitoxide accepts it.
    #[kani::proof]
    #[kani::unwind(4)]
    pub fn c15_validate_lone_at() {
        let x = *b"@";
        let got = match gix_validate::reference::name_partial(x[..].as_bstr()) {
            Ok(_) => true,
            Err(e) => {
                std::mem::forget(e);
                false
            }
        };
        assert!(got == model_check_refname_onelevel(&x), "name_partial agrees with git on \"@\"");
    }

    /// `.lock` at component ends beyond the plain length bound: `<a> ".lock" <b>` with symbolic a, b.
    pub fn lock_template<const A: usize, const B: usize, const T: usize>() {
        let a: [u8; A] = kani::any();
        let b: [u8; B] = kani::any();
        let mut x = [0u8; T];
        let mut i = 0;
        while i < A {
            x[i] = a[i];
            i += 1;
        }
        x[A] = b'.';
        x[A + 1] = b'l';
        x[A + 2] = b'o';
        x[A + 3] = b'c';
        x[A + 4] = b'k';
        i = 0;
        while i < B {
            x[A + 5 + i] = b[i];
            i += 1;
        }
        let want = model_check_refname_onelevel(&x);
        let got = match gix_validate::reference::name_partial(x[..].as_bstr()) {
            Ok(_) => true,
            Err(e) => {
                std::mem::forget(e);
                false
            }
        };
        assert!(got == want, "name_partial agrees with git around '.lock'");
        kani::cover!(B == 0 || got, ".lock inside a component accepted");
        kani::cover!(!got, ".lock at a component end rejected");
    }
    macro_rules! lock_instances {
        ($($name:ident = ($a:literal, $b:literal, $t:literal)),*) => {$(
            #[kani::proof]
            #[kani::unwind(12)]
            pub fn $name() { lock_template::<$a, $b, $t>() }
        )*};
    }
    lock_instances!(c15_lock_1_0 = (1, 0, 6), c15_lock_1_2 = (1, 2, 8), c15_lock_2_2 = (2, 2, 9), c15_lock_3_1 = (3, 1, 9), c15_lock_2_3 = (2, 3, 10));

    /// Sanitising never panics and its result is a valid partial name (by the real validator and by git's rules).
    pub fn sanitize<const N: usize>() {
        let x: [u8; N] = kani::any();
        let out: BString = gix_validate::reference::name_partial_or_sanitize(x[..].as_bstr());
        let o: &[u8] = out.as_ref();
        assert!(o.len() <= N + 1);
        let lone_at = o.len() == 1 && o[0] == b'@';
        let ok = match gix_validate::reference::name_partial(o.as_bstr()) {
            Ok(_) => true,
            Err(e) => {
                std::mem::forget(e);
                false
            }
        };
        assert!(ok, "the sanitised name passes name_partial");
        if !lone_at {
            assert!(model_check_refname_onelevel(o), "the sanitised name is valid for git");
        }
        kani::cover!(N == 0 || o.len() == N, "nothing removed");
        kani::cover!(N < 2 || o.len() < N, "something removed");
        std::mem::forget(out);
    }
    macro_rules! sanitize_instances {
        ($($name:ident = $n:literal),*) => {$(
            #[kani::proof]
            #[kani::unwind(9)]
            pub fn $name() { sanitize::<$n>() }
        )*};
    }
    sanitize_instances!(c15_sanitize_0 = 0, c15_sanitize_1 = 1, c15_sanitize_2 = 2, c15_sanitize_3 = 3);

    /// Sanitising over the alphabet of characters the rules mention (plus one letter): every string of N symbols.
    pub const SPECIAL: [u8; 12] = [b'a', b'.', b'/', b'@', b'{', b'*', b':', b' ', b'~', b'\\', 0x7f, b'-'];
    pub fn sanitize_special<const N: usize>() {
        let mut x = [0u8; N];
        let mut i = 0;
        while i < N {
            let k: u8 = kani::any();
            kani::assume(k < 12);
            x[i] = SPECIAL[k as usize];
            i += 1;
        }
        let out: BString = gix_validate::reference::name_partial_or_sanitize(x[..].as_bstr());
        let o: &[u8] = out.as_ref();
        let lone_at = o.len() == 1 && o[0] == b'@';
        let ok = match gix_validate::reference::name_partial(o.as_bstr()) {
            Ok(_) => true,
            Err(e) => {
                std::mem::forget(e);
                false
            }
        };
        assert!(ok, "the sanitised name passes name_partial");
        if !lone_at {
            assert!(model_check_refname_onelevel(o), "the sanitised name is valid for git");
        }
        kani::cover!(o.len() < N, "something removed");
        std::mem::forget(out);
    }
    #[kani::proof]
    #[kani::unwind(9)]
    pub fn c15_sanitize_special_3() {
        sanitize_special::<3>()
    }
    /// Sanitising around `.lock`: `<a> ".lock" <b>`.
    pub fn sanitize_lock<const A: usize, const B: usize, const T: usize>() {
        let a: [u8; A] = kani::any();
        let b: [u8; B] = kani::any();
        let mut x = [0u8; T];
        let mut i = 0;
        while i < A {
            x[i] = a[i];
            i += 1;
        }
        x[A] = b'.';
        x[A + 1] = b'l';
        x[A + 2] = b'o';
        x[A + 3] = b'c';
        x[A + 4] = b'k';
        i = 0;
        while i < B {
            x[A + 5 + i] = b[i];
            i += 1;
        }
        let out: BString = gix_validate::reference::name_partial_or_sanitize(x[..].as_bstr());
        let o: &[u8] = out.as_ref();
        let ok = match gix_validate::reference::name_partial(o.as_bstr()) {
            Ok(_) => true,
            Err(e) => {
                std::mem::forget(e);
                false
            }
        };
        assert!(ok, "the sanitised name passes name_partial");
        assert!(model_check_refname_onelevel(o), "the sanitised name is valid for git");
        kani::cover!(o.len() + 5 <= T, "a .lock suffix was stripped");
        std::mem::forget(out);
    }
    macro_rules! sanitize_lock_instances {
        ($($name:ident = ($a:literal, $b:literal, $t:literal)),*) => {$(
            #[kani::proof]
            #[kani::unwind(14)]
            pub fn $name() { sanitize_lock::<$a, $b, $t>() }
        )*};
    }
    sanitize_lock_instances!(c15_sanitize_lock_1_0 = (1, 0, 6), c15_sanitize_lock_0_1 = (0, 1, 6));
}
