//! Kani harnesses over the real gitoxide crates (path dependencies on /repo).
#![allow(dead_code, unused_imports, clippy::all)]

pub mod c05;
