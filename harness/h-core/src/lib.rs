//! Kani harnesses over the real gitoxide crates (path dependencies on /repo).
#![allow(dead_code, unused_imports, clippy::all)]

#[path = "../../common/util.rs"]
pub mod util;

pub mod c05;
pub mod c06;
pub mod c15;
pub mod c29;
pub mod c40;
pub mod c57;
