//! C57 — ANSI-C unquoting inverts git's path quoting.
use bstr::{BStr, BString, ByteSlice};

/// What git's `quote_c_style()` (quote.c, `core.quotePath=true`) emits for one byte:
/// 0 = the byte itself, 1 = backslash + letter, 2 = backslash + three octal digits.
pub fn quote_class(b: u8) -> u8 {
    match b {
        7 | 8 | 9 | 10 | 11 | 12 | 13 | b'"' | b'\\' => 1,
        0..=0x1f | 0x7f | 0x80..=0xff => 2,
        _ => 0,
    }
}

/// git's two-character escape for a class-1 byte.
pub fn escape_letter(b: u8) -> u8 {
    match b {
        7 => b'a',
        8 => b'b',
        9 => b't',
        10 => b'n',
        11 => b'v',
        12 => b'f',
        13 => b'r',
        other => other, // '"' and '\\'
    }
}

/// Transcription of git's `quote_c_style` for one whole name into `out`; returns the quoted length.
/// (git quotes the name iff some byte is of class 1 or 2; the harness always asks for the quoted form.)
pub fn model_quote_c_style(s: &[u8], out: &mut [u8]) -> usize {
    let mut o = 0;
    out[o] = b'"';
    o += 1;
    let mut i = 0;
    while i < s.len() {
        let b = s[i];
        match quote_class(b) {
            0 => {
                out[o] = b;
                o += 1;
            }
            1 => {
                out[o] = b'\\';
                out[o + 1] = escape_letter(b);
                o += 2;
            }
            _ => {
                out[o] = b'\\';
                out[o + 1] = b'0' + (b >> 6);
                out[o + 2] = b'0' + ((b >> 3) & 7);
                out[o + 3] = b'0' + (b & 7);
                o += 4;
            }
        }
        i += 1;
    }
    out[o] = b'"';
    o + 1
}

#[cfg(test)]
mod tests {
    use super::*;
    use std::process::Command;

    /// The quoting model is git's: `git ls-files` with core.quotePath=true prints exactly the model's text.
    #[test]
    fn model_matches_git_quoting() {
        use std::os::unix::ffi::OsStrExt;
        if Command::new("git").arg("--version").output().is_err() {
            return;
        }
        let dir = std::env::temp_dir().join(format!("verif-c57-{}", std::process::id()));
        let _ = std::fs::remove_dir_all(&dir);
        std::fs::create_dir_all(&dir).unwrap();
        let run = |args: &[&str]| {
            let o = Command::new("git").current_dir(&dir).args(args).output().unwrap();
            assert!(o.status.success(), "{:?}: {}", args, String::from_utf8_lossy(&o.stderr));
            o.stdout
        };
        run(&["init", "-q", "."]);
        run(&["config", "core.quotePath", "true"]);
        let mut names: Vec<Vec<u8>> = Vec::new();
        for b in 1u8..=255 {
            if b == b'/' {
                continue;
            }
            names.push(vec![b'x', b, b'y']);
        }
        names.push(b"a\"b\\c\td\xc3\xa4".to_vec());
        for n in &names {
            std::fs::write(dir.join(std::ffi::OsStr::from_bytes(n)), b"").unwrap();
        }
        run(&["add", "-A"]);
        let listing = run(&["ls-files"]);
        let got: std::collections::BTreeSet<Vec<u8>> = listing.split(|b| *b == b'\n').filter(|l| !l.is_empty()).map(|l| l.to_vec()).collect();
        for n in &names {
            let needs = n.iter().any(|b| quote_class(*b) != 0);
            let want = if needs {
                let mut buf = vec![0u8; 4 * n.len() + 2];
                let l = model_quote_c_style(n, &mut buf);
                buf.truncate(l);
                buf
            } else {
                n.clone()
            };
            assert!(got.contains(&want), "git does not print {:?} for {:?}", want.as_bstr(), n.as_bstr());
            // and the real undo() inverts it
            let (back, used) = gix_quote::ansi_c::undo(want.as_bstr()).unwrap();
            assert_eq!(back.as_ref(), n.as_bstr());
            assert_eq!(used, want.len());
        }
        let _ = std::fs::remove_dir_all(&dir);
    }
}

#[cfg(kani)]
pub mod proofs {
    use super::*;

    /// Stub for the crate-private `undo::Error::new(message.to_string(), input.into())`: no formatting, no copy of the input.
    pub fn stub_error_new<T: ToString>(_message: T, _input: &BStr) -> gix_quote::ansi_c::undo::Error {
        gix_quote::ansi_c::undo::Error::UnsupportedEscapeByte { byte: 0, input: BString::default() }
    }

    /// Any byte of the given quoting class.
    fn any_of_class(class: u8) -> u8 {
        let b: u8 = kani::any();
        kani::assume(quote_class(b) == class);
        b
    }

    /// `undo(quote_c_style(s) ++ tail) == (s, len(quote_c_style(s)))` for every `s` whose bytes have the
    /// given quoting classes (so that the quoted length QL is concrete) and every tail of T bytes.
    pub fn roundtrip<const N: usize, const QL: usize, const T: usize, const TOT: usize>(classes: [u8; N]) {
        let mut s = [0u8; N];
        let mut i = 0;
        while i < N {
            s[i] = any_of_class(classes[i]);
            i += 1;
        }
        let mut text = [0u8; TOT];
        let ql = model_quote_c_style(&s, &mut text);
        assert!(ql == QL);
        let tail: [u8; T] = kani::any();
        i = 0;
        while i < T {
            text[QL + i] = tail[i];
            i += 1;
        }
        match gix_quote::ansi_c::undo(text[..].as_bstr()) {
            Ok((back, consumed)) => {
                assert!(consumed == QL, "exactly the quoted form is consumed");
                let b: &[u8] = back.as_ref();
                assert!(b.len() == N, "original length");
                if N > 0 {
                    let k: usize = kani::any();
                    kani::assume(k < N);
                    assert!(b[k] == s[k], "original bytes");
                }
                kani::cover!(true, "unquoted");
                std::mem::forget(back);
            }
            Err(e) => {
                std::mem::forget(e);
                assert!(false, "git's quoted form must be accepted");
            }
        }
    }

    macro_rules! rt {
        ($($name:ident = ([$($c:literal),*], $n:literal, $ql:literal, $t:literal, $tot:literal, $u:literal)),* $(,)?) => {$(
            #[kani::proof]
            #[kani::unwind($u)]
            #[kani::stub(gix_quote::ansi_c::undo::Error::new, stub_error_new)]
            pub fn $name() { roundtrip::<$n, $ql, $t, $tot>([$($c),*]) }
        )*};
    }
    rt!(
        c57_rt_empty = ([], 0, 2, 1, 3, 4),
        c57_rt_p_t0 = ([0], 1, 3, 0, 3, 4),
        c57_rt_p_t1 = ([0], 1, 3, 1, 4, 5),
        c57_rt_e_t0 = ([1], 1, 4, 0, 4, 5),
        c57_rt_e_t1 = ([1], 1, 4, 1, 5, 6),
        c57_rt_o_t0 = ([2], 1, 6, 0, 6, 7),
        c57_rt_pp_t0 = ([0, 0], 2, 4, 0, 4, 5),
    );

    /// Input that does not start with a double quote is returned unchanged and fully consumed.
    /// The first byte is concrete per instance (the function only asks whether it is '"'); the rest is symbolic.
    pub fn unquoted<const N: usize>(first: u8) {
        let mut x: [u8; N] = kani::any();
        if N > 0 {
            x[0] = first;
        }
        match gix_quote::ansi_c::undo(x[..].as_bstr()) {
            Ok((back, consumed)) => {
                assert!(consumed == N);
                assert!(matches!(back, std::borrow::Cow::Borrowed(_)), "no copy for unquoted input");
                let b: &[u8] = back.as_ref();
                assert!(b.len() == N);
                if N > 0 {
                    let k: usize = kani::any();
                    kani::assume(k < N);
                    assert!(b[k] == x[k]);
                }
                kani::cover!(true, "returned unchanged");
            }
            Err(e) => {
                std::mem::forget(e);
                assert!(false, "unquoted input is never an error");
            }
        }
    }
    macro_rules! uq {
        ($($name:ident = ($n:literal, $f:literal)),*) => {$(
            #[kani::proof]
            #[kani::unwind(8)]
            pub fn $name() { unquoted::<$n>($f) }
        )*};
    }
    uq!(c57_unquoted_0 = (0, 0), c57_unquoted_a = (6, b'a'), c57_unquoted_nul = (6, 0), c57_unquoted_ff = (6, 0xff),
        c57_unquoted_bs = (6, b'\\'), c57_unquoted_sq = (6, b'\''), c57_unquoted_21 = (6, 0x21), c57_unquoted_23 = (6, 0x23));

    /// C06: arbitrary bytes starting with a quote never panic (value or error).
    pub fn no_panic<const N: usize>() {
        let mut x: [u8; N] = kani::any();
        if N > 0 {
            x[0] = b'"';
        }
        match gix_quote::ansi_c::undo(x[..].as_bstr()) {
            Ok((back, consumed)) => {
                assert!(consumed <= N, "never claims to consume more than there is");
                kani::cover!(N < 2 || true, "accepted");
                std::mem::forget(back);
            }
            Err(e) => {
                kani::cover!(true, "rejected");
                std::mem::forget(e);
            }
        }
    }
    macro_rules! np {
        ($($name:ident = ($n:literal, $u:literal)),*) => {$(
            #[kani::proof]
            #[kani::unwind($u)]
            #[kani::stub(gix_quote::ansi_c::undo::Error::new, stub_error_new)]
            pub fn $name() { no_panic::<$n>() }
        )*};
    }
    np!(c57_nopanic_1 = (1, 4), c57_nopanic_2 = (2, 4), c57_nopanic_3 = (3, 4), c57_nopanic_4 = (4, 5));
}
