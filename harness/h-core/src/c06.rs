//! C06 — untrusted bytes never crash a parser: entry points not already covered by C15 (names), C29 (packet lines), C57 (quoted strings).
use gix_bitmap::ewah;

#[cfg(kani)]
pub mod proofs {
    use super::*;

    /// EWAH bitmap (index extensions, pack bitmaps): decode arbitrary bytes, then walk the set bits.
    /// Header: num_bits u32 | word count u32 | words | rlw u32. The run lengths of the marker words are kept at 0
    /// (a run legitimately makes up to 2^38 callbacks); the literal-word counts and all literal bits are arbitrary.
    pub fn ewah_walk<const K: usize, const N: usize>() {
        let mut data: [u8; N] = kani::any();
        // declared word count: K (a mismatching count is `ewah_truncated`'s job)
        data[4] = 0;
        data[5] = 0;
        data[6] = 0;
        data[7] = K as u8;
        let (bitmap, rest) = match ewah::decode(&data) {
            Ok(v) => v,
            Err(e) => {
                std::mem::forget(e);
                assert!(false, "a complete buffer decodes");
                return;
            }
        };
        assert!(rest.is_empty());
        // bound the run length of every word that could serve as a marker: bits 1..=32 hold it
        let mut i = 0;
        while i < K {
            let w = u64::from_be_bytes([data[8 + 8 * i], data[9 + 8 * i], data[10 + 8 * i], data[11 + 8 * i], data[12 + 8 * i], data[13 + 8 * i], data[14 + 8 * i], data[15 + 8 * i]]);
            kani::assume((w >> 1) & 0xffff_ffff == 0);
            i += 1;
        }
        let mut calls = 0u32;
        let res = bitmap.for_each_set_bit(|_idx| {
            calls += 1;
            Some(())
        });
        kani::cover!(K < 2 || (res.is_some() && calls > 0), "bits reported");
        kani::cover!(K == 0 || res.is_none(), "iteration stopped on a corrupt bitmap");
        std::mem::forget(bitmap);
    }
    #[kani::proof]
    #[kani::unwind(5)]
    pub fn c06_ewah_walk_0() {
        ewah_walk::<0, 12>()
    }
    #[kani::proof]
    #[kani::unwind(5)]
    pub fn c06_ewah_walk_1() {
        ewah_walk::<1, 20>()
    }
    #[kani::proof]
    #[kani::unwind(5)]
    pub fn c06_ewah_walk_2() {
        ewah_walk::<2, 28>()
    }

    /// Arbitrary bytes never panic the EWAH decoder (truncated buffers, oversized word counts).
    pub fn ewah_decode<const N: usize>() {
        let data: [u8; N] = kani::any();
        // the declared word count is limited to what keeps the copy loop within the unwinding bound
        if N >= 8 {
            kani::assume(data[4] == 0 && data[5] == 0);
        }
        match ewah::decode(&data) {
            Ok((bitmap, rest)) => {
                assert!(rest.len() + 12 <= N);
                kani::cover!(true, "decoded");
                std::mem::forget(bitmap);
            }
            Err(e) => {
                std::mem::forget(e);
                kani::cover!(true, "refused");
            }
        }
    }
    #[kani::proof]
    #[kani::unwind(10)]
    pub fn c06_ewah_decode_7() {
        let data: [u8; 7] = kani::any();
        assert!(ewah::decode(&data).is_err(), "too short for the header");
    }
    #[kani::proof]
    #[kani::unwind(10)]
    pub fn c06_ewah_decode_20() {
        ewah_decode::<20>()
    }
}
