//! C29 — packet-line framing is exact and never panics (also the packet-line part of C06).
use crate::util::FixedBuf;
use gix_packetline::{decode, encode, Channel, PacketLineRef, StreamingPeekableIter};

pub const MAX_LINE_LEN: usize = 65516 + 4;

/// Value of one hex digit (either case), or None.
pub fn hex_val(c: u8) -> Option<u16> {
    match c {
        b'0'..=b'9' => Some((c - b'0') as u16),
        b'a'..=b'f' => Some((c - b'a' + 10) as u16),
        b'A'..=b'F' => Some((c - b'A' + 10) as u16),
        _ => None,
    }
}

/// What a four-byte length prefix means according to git's pkt-line format (protocol-common.txt / pkt-line.c):
#[derive(PartialEq, Eq, Clone, Copy, Debug)]
pub enum Prefix {
    Flush,
    Delim,
    ResponseEnd,
    /// total line length including the 4 prefix bytes (5..=65535)
    Len(u16),
    /// length 3 or 4, or a non-hex character
    Invalid,
}

pub fn model_prefix(p: &[u8; 4]) -> Prefix {
    let (a, b, c, d) = match (hex_val(p[0]), hex_val(p[1]), hex_val(p[2]), hex_val(p[3])) {
        (Some(a), Some(b), Some(c), Some(d)) => (a, b, c, d),
        _ => return Prefix::Invalid,
    };
    let v = (a << 12) | (b << 8) | (c << 4) | d;
    match v {
        0 => Prefix::Flush,
        1 => Prefix::Delim,
        2 => Prefix::ResponseEnd,
        3 | 4 => Prefix::Invalid,
        v => Prefix::Len(v),
    }
}

#[cfg(test)]
mod tests {
    use super::*;
    #[test]
    fn prefix_model_examples() {
        assert_eq!(model_prefix(b"0000"), Prefix::Flush);
        assert_eq!(model_prefix(b"0001"), Prefix::Delim);
        assert_eq!(model_prefix(b"0002"), Prefix::ResponseEnd);
        assert_eq!(model_prefix(b"0003"), Prefix::Invalid);
        assert_eq!(model_prefix(b"0004"), Prefix::Invalid);
        assert_eq!(model_prefix(b"0005"), Prefix::Len(5));
        assert_eq!(model_prefix(b"fFf0"), Prefix::Len(0xfff0));
        assert_eq!(model_prefix(b"00g0"), Prefix::Invalid);
        // and the real decoder agrees on them
        for p in [b"0000", b"0001", b"0002", b"0003", b"0004", b"0005", b"fFf0", b"00g0", b"ffff"] {
            let real = match decode::hex_prefix(p) {
                Ok(decode::PacketLineOrWantedSize::Line(PacketLineRef::Flush)) => Prefix::Flush,
                Ok(decode::PacketLineOrWantedSize::Line(PacketLineRef::Delimiter)) => Prefix::Delim,
                Ok(decode::PacketLineOrWantedSize::Line(PacketLineRef::ResponseEnd)) => Prefix::ResponseEnd,
                Ok(decode::PacketLineOrWantedSize::Line(_)) => unreachable!(),
                Ok(decode::PacketLineOrWantedSize::Wanted(n)) => Prefix::Len(n + 4),
                Err(_) => Prefix::Invalid,
            };
            assert_eq!(real, model_prefix(p));
        }
    }
}

/// `io::Read` over a short slice that copies byte by byte (no memcpy of symbolic length).
pub struct ByteReader<'a> {
    pub data: &'a [u8],
    pub pos: usize,
}
impl std::io::Read for ByteReader<'_> {
    /// Hands out exactly one byte per call (a legal `Read`): the number of bytes returned never depends on the
    /// (symbolic) length of `buf`, so `read_exact` advances through the target buffer at concrete offsets.
    fn read(&mut self, buf: &mut [u8]) -> std::io::Result<usize> {
        if self.pos < self.data.len() && !buf.is_empty() {
            buf[0] = self.data[self.pos];
            self.pos += 1;
            Ok(1)
        } else {
            Ok(0)
        }
    }
}

#[cfg(kani)]
pub mod proofs {
    use super::*;

    fn real_prefix(p: &[u8; 4]) -> Prefix {
        match decode::hex_prefix(p) {
            Ok(decode::PacketLineOrWantedSize::Line(PacketLineRef::Flush)) => Prefix::Flush,
            Ok(decode::PacketLineOrWantedSize::Line(PacketLineRef::Delimiter)) => Prefix::Delim,
            Ok(decode::PacketLineOrWantedSize::Line(PacketLineRef::ResponseEnd)) => Prefix::ResponseEnd,
            Ok(decode::PacketLineOrWantedSize::Line(PacketLineRef::Data(_))) => {
                assert!(false, "a prefix alone never yields data");
                Prefix::Invalid
            }
            Ok(decode::PacketLineOrWantedSize::Wanted(n)) => {
                assert!(n >= 1 && n as u32 + 4 <= 0xffff);
                Prefix::Len(n + 4)
            }
            Err(e) => {
                std::mem::forget(e);
                Prefix::Invalid
            }
        }
    }

    /// All 2^32 four-byte prefixes: `hex_prefix` never panics and classifies exactly like the format says.
    #[kani::proof]
    #[kani::unwind(6)]
    #[kani::stub(alloc::fmt::format, crate::util::stub_format)]
    pub fn c29_prefix_all() {
        let p: [u8; 4] = kani::any();
        let want = model_prefix(&p);
        let got = real_prefix(&p);
        assert!(got == want, "hex_prefix classifies the prefix as the format defines");
        kani::cover!(want == Prefix::Flush);
        kani::cover!(want == Prefix::Len(0xffff));
        kani::cover!(want == Prefix::Invalid && p[3] == b'g');
        kani::cover!(want == Prefix::Len(0xabcd) && p[0] == b'A' && p[1] == b'b');
    }

    /// `streaming()` on a prefix plus N data bytes: complete / incomplete / error exactly as the numeric length says.
    pub fn streaming<const TOT: usize>() {
        let data: [u8; TOT] = kani::any();
        let p = [data[0], data[1], data[2], data[3]];
        let want = model_prefix(&p);
        match decode::streaming(&data[..]) {
            Ok(decode::Stream::Complete { line, bytes_consumed }) => match want {
                Prefix::Flush => assert!(line == PacketLineRef::Flush && bytes_consumed == 4),
                Prefix::Delim => assert!(line == PacketLineRef::Delimiter && bytes_consumed == 4),
                Prefix::ResponseEnd => assert!(line == PacketLineRef::ResponseEnd && bytes_consumed == 4),
                Prefix::Len(n) => {
                    let n = n as usize;
                    assert!(n <= TOT && bytes_consumed == n);
                    match line {
                        PacketLineRef::Data(d) => {
                            assert!(d.len() == n - 4);
                            let k: usize = kani::any();
                            kani::assume(k < n - 4);
                            assert!(d[k] == data[4 + k], "payload is the bytes after the prefix");
                            kani::cover!(true, "data line decoded");
                        }
                        _ => assert!(false, "a length prefix yields a data line"),
                    }
                }
                Prefix::Invalid => assert!(false, "invalid prefix accepted"),
            },
            Ok(decode::Stream::Incomplete { bytes_needed }) => match want {
                Prefix::Len(n) => {
                    assert!(n as usize > TOT && n as usize <= MAX_LINE_LEN);
                    assert!(bytes_needed == n as usize - TOT);
                    kani::cover!(true, "incomplete line reported");
                }
                _ => assert!(false, "only a length prefix can be incomplete"),
            },
            Err(e) => {
                std::mem::forget(e);
                match want {
                    Prefix::Invalid => {}
                    Prefix::Len(n) => assert!(n as usize > MAX_LINE_LEN, "only oversized lengths are refused"),
                    _ => assert!(false, "special lines are never an error"),
                }
                kani::cover!(matches!(want, Prefix::Len(_)), "oversized length refused");
            }
        }
    }
    macro_rules! streaming_instances {
        ($($name:ident = $n:literal),*) => {$(
            #[kani::proof]
            #[kani::unwind(10)]
            #[kani::stub(alloc::fmt::format, crate::util::stub_format)]
            pub fn $name() { streaming::<$n>() }
        )*};
    }
    streaming_instances!(c29_streaming_5 = 5, c29_streaming_6 = 6, c29_streaming_8 = 8);

    /// Short inputs (< 4 bytes) are incomplete, never an error or a panic.
    #[kani::proof]
    #[kani::unwind(6)]
    pub fn c29_streaming_short() {
        let data: [u8; 3] = kani::any();
        let n: usize = kani::any();
        kani::assume(n <= 3);
        match decode::streaming(&data[..n]) {
            Ok(decode::Stream::Incomplete { bytes_needed }) => assert!(bytes_needed == 4 - n),
            Ok(_) => assert!(false),
            Err(e) => {
                std::mem::forget(e);
                assert!(false);
            }
        }
        kani::cover!(n == 0);
        kani::cover!(n == 3);
    }

    #[derive(Clone, Copy, PartialEq, Eq)]
    pub enum Kind {
        Data,
        Text,
        Error,
        Band(u8),
    }

    /// Every line written by the encoders decodes back to the same line, consuming exactly the written length.
    pub fn encode_decode<const N: usize, const OUT: usize>(kind: Kind) {
        let payload: [u8; N] = kani::any();
        let mut out = FixedBuf::<OUT>::new();
        let res = match kind {
            Kind::Data => encode::data_to_write(&payload, &mut out),
            Kind::Text => encode::text_to_write(&payload, &mut out),
            Kind::Error => encode::error_to_write(&payload, &mut out),
            Kind::Band(b) => encode::band_to_write(
                match b {
                    1 => Channel::Data,
                    2 => Channel::Progress,
                    _ => Channel::Error,
                },
                &payload,
                &mut out,
            ),
        };
        let written = match res {
            Ok(n) => n,
            Err(e) => {
                std::mem::forget(e);
                assert!(N == 0, "only the empty payload is refused at this size");
                return;
            }
        };
        assert!(N > 0);
        assert!(!out.overflow && written == out.len, "reports the bytes written");
        let extra = match kind {
            Kind::Data => 0,
            Kind::Text => 1,
            Kind::Error => 4,
            Kind::Band(_) => 1,
        };
        assert!(written == 4 + N + extra);
        match decode::streaming(&out.data[..]) {
            Ok(decode::Stream::Complete { line, bytes_consumed }) => {
                assert!(bytes_consumed == written, "decoding consumes exactly the written length");
                let d = match line {
                    PacketLineRef::Data(d) => d,
                    _ => {
                        assert!(false, "a data line comes back as data");
                        return;
                    }
                };
                assert!(d.len() == N + extra);
                let k: usize = kani::any();
                kani::assume(k < N);
                match kind {
                    Kind::Data => assert!(d[k] == payload[k]),
                    Kind::Text => {
                        assert!(d[k] == payload[k] && d[N] == b'\n');
                        let t = line.as_text().expect("data");
                        // as_text strips one trailing newline
                        assert!(t.as_slice().len() == N);
                    }
                    Kind::Error => {
                        assert!(d[0] == b'E' && d[1] == b'R' && d[2] == b'R' && d[3] == b' ' && d[4 + k] == payload[k]);
                        let e = line.check_error().expect("is an error line");
                        assert!(e.0.len() == N && e.0[k] == payload[k]);
                    }
                    Kind::Band(b) => {
                        assert!(d[0] == b && d[1 + k] == payload[k]);
                        match line.decode_band() {
                            Ok(gix_packetline::BandRef::Data(x)) => assert!(b == 1 && x.len() == N && x[k] == payload[k]),
                            Ok(gix_packetline::BandRef::Progress(x)) => assert!(b == 2 && x.len() == N && x[k] == payload[k]),
                            Ok(gix_packetline::BandRef::Error(x)) => assert!(b == 3 && x.len() == N && x[k] == payload[k]),
                            Err(e) => {
                                std::mem::forget(e);
                                assert!(false, "own band line decodes");
                            }
                        }
                    }
                }
                kani::cover!(true, "round trip");
            }
            Ok(decode::Stream::Incomplete { .. }) => assert!(false, "own line is complete"),
            Err(e) => {
                std::mem::forget(e);
                assert!(false, "own line decodes");
            }
        }
    }
    macro_rules! ed {
        ($($name:ident = ($n:literal, $out:literal, $kind:expr)),* $(,)?) => {$(
            #[kani::proof]
            #[kani::unwind(12)]
            #[kani::stub(alloc::fmt::format, crate::util::stub_format)]
            pub fn $name() { encode_decode::<$n, $out>($kind) }
        )*};
    }
    ed!(
        c29_ed_data_1 = (1, 8, Kind::Data),
        c29_ed_data_4 = (4, 8, Kind::Data),
        c29_ed_text_3 = (3, 8, Kind::Text),
        c29_ed_err_2 = (2, 10, Kind::Error),
        c29_ed_band1_3 = (3, 8, Kind::Band(1)),
        c29_ed_band2_2 = (2, 8, Kind::Band(2)),
        c29_ed_band3_1 = (1, 8, Kind::Band(3)),
    );

    /// Empty payloads are refused by every encoder (an empty line would read as a flush/"0004").
    #[kani::proof]
    #[kani::unwind(6)]
    #[kani::stub(alloc::fmt::format, crate::util::stub_format)]
    pub fn c29_ed_empty_refused() {
        let which: u8 = kani::any();
        kani::assume(which < 4);
        let mut out = FixedBuf::<8>::new();
        let res = match which {
            0 => encode::data_to_write(&[], &mut out),
            1 => encode::text_to_write(&[], &mut out),
            2 => encode::error_to_write(&[], &mut out),
            _ => encode::band_to_write(Channel::Data, &[], &mut out),
        };
        let refused = match res {
            Ok(_) => false,
            Err(e) => {
                std::mem::forget(e);
                true
            }
        };
        assert!(refused && out.len == 0, "nothing is written for an empty payload");
        kani::cover!(which == 3);
    }

    /// The control lines written by the encoders decode to themselves.
    #[kani::proof]
    #[kani::unwind(8)]
    #[kani::stub(alloc::fmt::format, crate::util::stub_format)]
    pub fn c29_ed_control() {
        let which: u8 = kani::any();
        kani::assume(which < 3);
        let mut out = FixedBuf::<4>::new();
        let n = match which {
            0 => encode::flush_to_write(&mut out),
            1 => encode::delim_to_write(&mut out),
            _ => encode::response_end_to_write(&mut out),
        }
        .unwrap_or(0);
        assert!(n == 4 && out.len == 4);
        match decode::streaming(&out.data[..]) {
            Ok(decode::Stream::Complete { line, bytes_consumed }) => {
                assert!(bytes_consumed == 4);
                assert!(match which {
                    0 => line == PacketLineRef::Flush,
                    1 => line == PacketLineRef::Delimiter,
                    _ => line == PacketLineRef::ResponseEnd,
                });
            }
            _ => assert!(false, "control line decodes"),
        }
        kani::cover!(which == 2);
    }

    /// The encoders' size limit: a line (prefix/suffix bytes included) of exactly 65516 data bytes is written as a
    /// 65520-byte line whose length prefix is "fff0"; one byte more is refused. Concrete payloads, sink counts only.
    #[kani::proof]
    #[kani::unwind(6)]
    #[kani::stub(alloc::fmt::format, crate::util::stub_format)]
    pub fn c29_encode_limit() {
        static BIG: [u8; 65517] = [b'x'; 65517];
        let which: u8 = kani::any();
        kani::assume(which < 4);
        // bytes the encoder adds itself: data 0, text 1 (LF), ERR 4, band 1
        let extra: usize = match which {
            0 => 0,
            1 => 1,
            2 => 4,
            _ => 1,
        };
        let over: bool = kani::any();
        let n = 65516 - extra + usize::from(over);
        let mut sink = crate::util::CountSink(0);
        let res = match which {
            0 => encode::data_to_write(&BIG[..n], &mut sink),
            1 => encode::text_to_write(&BIG[..n], &mut sink),
            2 => encode::error_to_write(&BIG[..n], &mut sink),
            _ => encode::band_to_write(Channel::Progress, &BIG[..n], &mut sink),
        };
        match res {
            Ok(w) => {
                assert!(!over, "a line longer than 65520 bytes must be refused: no decoder accepts it");
                assert!(w == 65520 && sink.0 == 65520);
                kani::cover!(which == 2, "largest ERR line written");
            }
            Err(e) => {
                std::mem::forget(e);
                assert!(over, "the largest admissible line must be written");
                kani::cover!(which == 3, "oversized band line refused");
            }
        }
    }

    /// The blocking line reader (`read_line_inner`, the kernel of read_line/peek_line) over arbitrary bytes and a
    /// buffer of MAX_LINE_LEN bytes as at both call sites: for EVERY length prefix it returns a line or an error -
    /// never a panic - and what it returns agrees with the format.
    pub fn reader_inner<const TOT: usize>() {
        let bytes: [u8; TOT] = kani::any();
        let p = [bytes[0], bytes[1], bytes[2], bytes[3]];
        let want = model_prefix(&p);
        let mut buf = [0u8; MAX_LINE_LEN];
        // a reader that hands out the bytes one by one: every store into the 65520-byte buffer is at a concrete
        // offset and only slice *lengths* are symbolic (a memcpy of symbolic length into that buffer ran out of memory).
        let mut rd = ByteReader { data: &bytes[..], pos: 0 };
        let res = gix_packetline::read::verif_read_line_inner(&mut rd, &mut buf[..]);
        match res {
            Err(e) => {
                // I/O error: the stream ended before the announced length
                std::mem::forget(e);
                match want {
                    Prefix::Len(n) => assert!(n as usize > TOT && n as usize <= MAX_LINE_LEN, "EOF only when an admissible line is longer than the input"),
                    _ => assert!(false, "unexpected I/O error"),
                }
                kani::cover!(true, "truncated line -> I/O error");
            }
            Ok(Err(e)) => {
                std::mem::forget(e);
                match want {
                    Prefix::Invalid => {}
                    Prefix::Len(n) => assert!(n as usize > MAX_LINE_LEN, "only oversized lengths are a decode error"),
                    _ => assert!(false, "special lines are never an error"),
                }
                kani::cover!(matches!(want, Prefix::Len(_)), "oversized prefix -> error, not a panic");
            }
            Ok(Ok(line)) => match (want, line) {
                (Prefix::Flush, PacketLineRef::Flush) | (Prefix::Delim, PacketLineRef::Delimiter) | (Prefix::ResponseEnd, PacketLineRef::ResponseEnd) => {}
                (Prefix::Len(n), PacketLineRef::Data(d)) => {
                    let n = n as usize;
                    assert!(n <= TOT && d.len() == n - 4);
                    // concrete indices only: a symbolic read of the 65520-byte buffer is what makes the query explode
                    assert!(d[0] == bytes[4]);
                    assert!(n < 6 || d[1] == bytes[5]);
                    assert!(n < 7 || d[2] == bytes[6]);
                    assert!(n < 8 || d[3] == bytes[7]);
                    kani::cover!(true, "data line read");
                }
                _ => assert!(false, "reader and format disagree"),
            },
        }
    }
    macro_rules! rd {
        ($($name:ident = $n:literal),*) => {$(
            #[kani::proof]
            #[kani::unwind(10)]
            #[kani::stub(alloc::fmt::format, crate::util::stub_format)]
            pub fn $name() { reader_inner::<$n>() }
        )*};
    }
    rd!(c29_reader_5 = 5, c29_reader_6 = 6, c29_reader_8 = 8);
}
