//! Shared helpers for the harness crates (included with #[path]).
#![allow(dead_code)]

/// A fixed-capacity `io::Write` sink: no allocation, counts every byte, remembers overflow.
pub struct FixedBuf<const N: usize> {
    pub data: [u8; N],
    pub len: usize,
    pub overflow: bool,
}

impl<const N: usize> FixedBuf<N> {
    pub fn new() -> Self {
        FixedBuf { data: [0u8; N], len: 0, overflow: false }
    }
    pub fn bytes(&self) -> &[u8] {
        &self.data[..self.len]
    }
}

impl<const N: usize> std::io::Write for FixedBuf<N> {
    fn write(&mut self, buf: &[u8]) -> std::io::Result<usize> {
        let mut i = 0;
        while i < buf.len() {
            if self.len < N {
                self.data[self.len] = buf[i];
                self.len += 1;
            } else {
                self.overflow = true;
                // keep counting so that sizes stay comparable
                self.len += 1;
            }
            i += 1;
        }
        Ok(buf.len())
    }
    fn write_all(&mut self, buf: &[u8]) -> std::io::Result<()> {
        self.write(buf).map(|_| ())
    }
    fn flush(&mut self) -> std::io::Result<()> {
        Ok(())
    }
}

/// A sink that only counts.
pub struct CountSink(pub usize);
impl std::io::Write for CountSink {
    fn write(&mut self, buf: &[u8]) -> std::io::Result<usize> {
        self.0 += buf.len();
        Ok(buf.len())
    }
    fn write_all(&mut self, buf: &[u8]) -> std::io::Result<()> {
        self.0 += buf.len();
        Ok(())
    }
    fn flush(&mut self) -> std::io::Result<()> {
        Ok(())
    }
}

/// Stub for `alloc::fmt::format` (error-message construction): returns an empty string. Used with
/// `#[kani::stub(alloc::fmt::format, ...)]`; every harness using it is listed with this stub in its evidence.
#[cfg(kani)]
pub fn stub_format(_args: std::fmt::Arguments<'_>) -> String {
    String::new()
}
