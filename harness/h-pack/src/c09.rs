//! C09 — pack / multi-pack index lookups agree with a linear scan (lookup kernels shared by index::File and multi_index::File).
use gix_hash::{oid, ObjectId, Prefix};
use std::cmp::Ordering;

#[cfg(kani)]
pub mod proofs {
    use super::*;
    use gix_pack::verif_hooks::{fanout, lookup, lookup_prefix};

    /// Up to four ids in separate fields (no nested byte arrays: Kani 0.68 mis-models them).
    /// Bytes 0, 1 and 19 of each id are symbolic, the rest is zero: ids can share a fan-out bucket,
    /// share a two-byte prefix, or differ only in their tail.
    pub struct Ids {
        a: ObjectId,
        b: ObjectId,
        c: ObjectId,
        d: ObjectId,
        n: usize,
    }
    fn any_id() -> ObjectId {
        let mut raw = [0u8; 20];
        raw[0] = kani::any();
        raw[1] = kani::any();
        raw[19] = kani::any();
        ObjectId::from(raw)
    }
    impl Ids {
        pub fn any(n: usize) -> Self {
            let ids = Ids { a: any_id(), b: any_id(), c: any_id(), d: any_id(), n };
            // strictly ascending, as every index file stores them
            if n > 1 {
                kani::assume(ids.a < ids.b);
            }
            if n > 2 {
                kani::assume(ids.b < ids.c);
            }
            if n > 3 {
                kani::assume(ids.c < ids.d);
            }
            ids
        }
        pub fn at(&self, i: u32) -> &oid {
            match i {
                0 => &self.a,
                1 => &self.b,
                2 => &self.c,
                _ => &self.d,
            }
        }
        /// number of ids whose first byte is <= b: what the fan-out table holds at index b
        pub fn count_first_le(&self, b: u8) -> u32 {
            let mut c = 0;
            let mut i = 0;
            while i < self.n {
                if self.at(i as u32).first_byte() <= b {
                    c += 1;
                }
                i += 1;
            }
            c
        }
    }

    /// A fan-out table that is correct at the two slots a lookup of `first_byte` may read and arbitrary elsewhere.
    /// (The real `fanout()` is checked to produce exactly `count_first_le` in `c09_fanout_*`.)
    fn fan_for(ids: &Ids, first_byte: u8) -> [u32; 256] {
        let mut fan: [u32; 256] = kani::any();
        fan[first_byte as usize] = ids.count_first_le(first_byte);
        if first_byte > 0 {
            fan[first_byte as usize - 1] = ids.count_first_le(first_byte - 1);
        }
        fan
    }

    /// `fanout()` over the first bytes of K sorted ids: entry b is the number of ids with first byte <= b.
    pub fn fanout_is_count<const K: usize>() {
        let ids = Ids::any(K);
        let firsts = [ids.a.first_byte(), ids.b.first_byte(), ids.c.first_byte(), ids.d.first_byte()];
        let mut it = firsts[..K].iter().copied();
        let fan = fanout(&mut it);
        let b: u8 = kani::any();
        assert!(fan[b as usize] == ids.count_first_le(b), "fan-out entry is the count of ids up to that first byte");
        assert!(fan[255] == K as u32);
        kani::cover!(K == 0 || (b == 255 && firsts[K - 1] == 255), "id in the last bucket");
        kani::cover!(K < 2 || firsts[0] == firsts[1], "two ids in one bucket");
    }
    macro_rules! fan_instances {
        ($($name:ident = $k:literal),*) => {$(
            #[kani::proof]
            #[kani::unwind(6)]
            pub fn $name() { fanout_is_count::<$k>() }
        )*};
    }
    fan_instances!(c09_fanout_0 = 0, c09_fanout_1 = 1, c09_fanout_2 = 2);

    /// Full-id lookup == linear scan.
    pub fn lookup_full<const K: usize>() {
        let ids = Ids::any(K);
        let q = any_id();
        let fan = fan_for(&ids, q.first_byte());
        let got = lookup(&q, &fan, &|i| ids.at(i));
        let mut want: Option<u32> = None;
        let mut i = 0;
        while i < K {
            if *ids.at(i as u32) == *q {
                want = Some(i as u32);
            }
            i += 1;
        }
        assert!(got == want, "lookup finds an id exactly when it is present, at its position");
        kani::cover!(K == 0 || want.is_some(), "present");
        kani::cover!(want.is_none(), "absent");
        kani::cover!(K < 3 || want == Some(2), "found in the upper half");
    }
    macro_rules! lookup_instances {
        ($($name:ident = $k:literal),*) => {$(
            #[kani::proof]
            #[kani::unwind(24)]
            pub fn $name() { lookup_full::<$k>() }
        )*};
    }
    lookup_instances!(c09_lookup_0 = 0, c09_lookup_1 = 1, c09_lookup_2 = 2, c09_lookup_3 = 3, c09_lookup_4 = 4);

    /// Prefix lookup == linear scan: None / unique / ambiguous, and the candidate range.
    pub fn lookup_by_prefix<const K: usize>(with_candidates: bool) {
        let ids = Ids::any(K);
        let q = any_id();
        let hex_len: usize = kani::any();
        kani::assume(hex_len >= 4 && hex_len <= 40);
        let prefix = match Prefix::new(&q, hex_len) {
            Ok(p) => p,
            Err(e) => {
                std::mem::forget(e);
                assert!(false, "valid prefix length");
                return;
            }
        };
        let fan = fan_for(&ids, prefix.as_oid().first_byte());
        let mut range = 7u32..9u32;
        let got = lookup_prefix(prefix, if with_candidates { Some(&mut range) } else { None }, &fan, &|i| ids.at(i), K as u32);
        // linear scan
        let mut first: Option<u32> = None;
        let mut last: u32 = 0;
        let mut count = 0u32;
        let mut i = 0;
        while i < K {
            if prefix.cmp_oid(ids.at(i as u32)) == Ordering::Equal {
                if first.is_none() {
                    first = Some(i as u32);
                }
                last = i as u32;
                count += 1;
            }
            i += 1;
        }
        match got {
            None => {
                assert!(count == 0, "no match reported only if a scan finds none");
                if with_candidates {
                    assert!(range == (0..0), "empty candidate range on no match");
                }
            }
            Some(Ok(idx)) => {
                assert!(count == 1 && Some(idx) == first, "unique match is the one a scan finds");
                if with_candidates {
                    assert!(range == (idx..idx + 1));
                }
            }
            Some(Err(())) => {
                assert!(count > 1, "ambiguity only if a scan finds several");
                if with_candidates {
                    assert!(range.start == first.unwrap_or(99) && range.end == last + 1, "candidate range is exactly the matching run");
                }
            }
        }
        kani::cover!(K == 0 || count == 1, "unique");
        kani::cover!(K < 2 || count == 2, "ambiguous");
        kani::cover!(count == 0, "none");
        kani::cover!(K < 3 || (count == 2 && first == Some(1)), "ambiguous run in the upper part");
    }
    macro_rules! prefix_instances {
        ($($name:ident = ($k:literal, $c:literal)),*) => {$(
            #[kani::proof]
            #[kani::unwind(24)]
            pub fn $name() { lookup_by_prefix::<$k>($c) }
        )*};
    }
    prefix_instances!(
        c09_prefix_0_c = (0, true), c09_prefix_1_c = (1, true), c09_prefix_2_c = (2, true), c09_prefix_3_c = (3, true), c09_prefix_4_c = (4, true),
        c09_prefix_1_n = (1, false), c09_prefix_2_n = (2, false), c09_prefix_3_n = (3, false), c09_prefix_4_n = (4, false)
    );
}
