//! C07 — pack entry headers and deltas encode and decode losslessly.
use crate::util::FixedBuf;
use gix_hash::ObjectId;
use gix_pack::data::entry::Header;
use gix_pack::data::Entry;

/// Transcription of git's `patch_delta()` (delta.h / patch-delta.c), working on the instruction
/// stream *after* the two size headers. Returns None when git would refuse the delta, otherwise the
/// number of bytes produced into `out` (which has exactly the declared result size).
pub fn model_patch_delta(base: &[u8], out: &mut [u8], data: &[u8]) -> Option<usize> {
    let size = out.len();
    let mut remaining = size;
    let mut o = 0usize;
    let mut i = 0usize;
    while i < data.len() {
        let cmd = data[i];
        i += 1;
        if cmd & 0x80 != 0 {
            let mut cp_off: usize = 0;
            let mut cp_size: usize = 0;
            let mut bit = 0;
            while bit < 4 {
                if cmd & (1 << bit) != 0 {
                    if i >= data.len() {
                        return None;
                    }
                    cp_off |= (data[i] as usize) << (8 * bit);
                    i += 1;
                }
                bit += 1;
            }
            bit = 0;
            while bit < 3 {
                if cmd & (0x10 << bit) != 0 {
                    if i >= data.len() {
                        return None;
                    }
                    cp_size |= (data[i] as usize) << (8 * bit);
                    i += 1;
                }
                bit += 1;
            }
            if cp_size == 0 {
                cp_size = 0x10000;
            }
            if cp_off.checked_add(cp_size)? > base.len() || cp_size > remaining {
                return None;
            }
            let mut k = 0;
            while k < cp_size {
                out[o + k] = base[cp_off + k];
                k += 1;
            }
            o += cp_size;
            remaining -= cp_size;
        } else if cmd != 0 {
            let n = cmd as usize;
            if n > remaining || i + n > data.len() {
                return None;
            }
            let mut k = 0;
            while k < n {
                out[o + k] = data[i + k];
                k += 1;
            }
            o += n;
            i += n;
            remaining -= n;
        } else {
            return None;
        }
    }
    if remaining != 0 {
        return None;
    }
    Some(o)
}

/// git's `get_delta_hdr_size()`: little-endian base-128, at most until the data ends.
pub fn model_delta_hdr_size(d: &[u8]) -> (u64, usize) {
    let mut i = 0;
    let mut size: u64 = 0;
    let mut shift = 0u32;
    while i < d.len() {
        let c = d[i];
        i += 1;
        if shift < 64 {
            size |= ((c & 0x7f) as u64) << shift;
        }
        shift += 7;
        if c & 0x80 == 0 {
            break;
        }
    }
    (size, i)
}

#[cfg(test)]
mod tests {
    use super::*;
    #[test]
    fn model_delta_examples() {
        // copy 3 bytes from offset 1, then insert "xy"
        let base = b"abcdef";
        let delta = [0x80 | 0x01 | 0x10, 1, 3, 2, b'x', b'y'];
        let mut out = [0u8; 5];
        assert_eq!(model_patch_delta(base, &mut out, &delta), Some(5));
        assert_eq!(&out, b"bcdxy");
        let mut out2 = [0u8; 4];
        assert_eq!(model_patch_delta(base, &mut out2, &delta), None);
        assert_eq!(model_delta_hdr_size(&[0x85, 0x01, 7]), (0x85 & 0x7f | 1 << 7, 2));
    }
}

#[cfg(kani)]
pub mod proofs {
    use super::*;
    use gix_pack::verif_hooks::{delta_apply, delta_decode_header_size};

    fn any_base_header() -> Header {
        match kani::any::<u8>() & 3 {
            0 => Header::Commit,
            1 => Header::Tree,
            2 => Header::Blob,
            _ => Header::Tag,
        }
    }

    fn check_roundtrip(header: Header, size: u64, via_read: bool) {
        let pack_offset: u64 = kani::any();
        kani::assume(pack_offset < u64::MAX - 64);
        let mut out = FixedBuf::<32>::new();
        let written = match header.write_to(size, &mut out) {
            Ok(n) => n,
            Err(e) => {
                std::mem::forget(e);
                assert!(false, "writing into memory cannot fail");
                return;
            }
        };
        assert!(!out.overflow);
        assert!(written == out.len, "write_to reports the bytes it wrote");
        assert!(header.size(size) == written, "size() is the written length");
        // first byte: type id in bits 4..6, continuation iff size >= 16
        assert!((out.data[0] >> 4) & 7 == header.as_type_id());
        assert!((out.data[0] & 0x80 != 0) == (size >= 16));
        let entry = if via_read {
            let mut rd: &[u8] = &out.data[..];
            match Entry::from_read(&mut rd, pack_offset, 20) {
                Ok(e) => {
                    assert!(32 - rd.len() == written, "the stream decoder consumed exactly the written bytes");
                    e
                }
                Err(e) => {
                    std::mem::forget(e);
                    assert!(false, "own header decodes from a stream");
                    return;
                }
            }
        } else {
            match Entry::from_bytes(&out.data[..], pack_offset, 20) {
                Ok(e) => e,
                Err(e) => {
                    std::mem::forget(e);
                    assert!(false, "own header decodes from memory");
                    return;
                }
            }
        };
        assert!(entry.header == header, "same kind / base");
        assert!(entry.decompressed_size == size, "same size");
        assert!(entry.data_offset == pack_offset + written as u64, "consumed exactly the written length");
        kani::cover!(size == u64::MAX, "largest size");
        kani::cover!(size == 15, "single-byte size");
        kani::cover!(size == 16, "first continuation");
    }

    #[kani::proof]
    #[kani::unwind(12)]
    pub fn c07_header_rt_mem_base() {
        check_roundtrip(any_base_header(), kani::any(), false);
    }
    #[kani::proof]
    #[kani::unwind(12)]
    #[kani::stub(alloc::fmt::format, crate::util::stub_format)]
    pub fn c07_header_rt_read_base() {
        check_roundtrip(any_base_header(), kani::any(), true);
    }

    fn any_distance() -> u64 {
        let d: u64 = kani::any();
        kani::assume(d >= 1);
        d
    }
    #[kani::proof]
    #[kani::unwind(12)]
    pub fn c07_header_rt_mem_ofs() {
        let d = any_distance();
        check_roundtrip(Header::OfsDelta { base_distance: d }, kani::any(), false);
        kani::cover!(d == u64::MAX, "largest distance");
        kani::cover!(d == 128, "first two-byte distance");
        kani::cover!(d == 16511, "last two-byte distance");
    }
    #[kani::proof]
    #[kani::unwind(12)]
    #[kani::stub(alloc::fmt::format, crate::util::stub_format)]
    pub fn c07_header_rt_read_ofs() {
        let d = any_distance();
        check_roundtrip(Header::OfsDelta { base_distance: d }, kani::any(), true);
        kani::cover!(d == u64::MAX, "largest distance");
        kani::cover!(d == 16512, "first three-byte distance");
    }
    #[kani::proof]
    #[kani::unwind(22)]
    pub fn c07_header_rt_mem_ref() {
        let id = ObjectId::from(kani::any::<[u8; 20]>());
        check_roundtrip(Header::RefDelta { base_id: id }, kani::any(), false);
    }
    #[kani::proof]
    #[kani::unwind(22)]
    #[kani::stub(alloc::fmt::format, crate::util::stub_format)]
    pub fn c07_header_rt_read_ref() {
        let id = ObjectId::from(kani::any::<[u8; 20]>());
        check_roundtrip(Header::RefDelta { base_id: id }, kani::any(), true);
    }

    /// The distance encoding is the canonical one: minimal length, and strictly monotone lengths.
    #[kani::proof]
    #[kani::unwind(12)]
    pub fn c07_ofs_distance_length() {
        let d = any_distance();
        let h = Header::OfsDelta { base_distance: d };
        let n = h.size(0) - 1;
        // git: 1 byte < 2^7, 2 bytes < 2^7 + 2^14, 3 bytes < 2^7 + 2^14 + 2^21 ...
        let mut lim: u128 = 0;
        let mut want = 0usize;
        let mut k = 1;
        while k <= 10 {
            lim += 1u128 << (7 * k);
            if want == 0 && (d as u128) < lim {
                want = k;
            }
            k += 1;
        }
        assert!(n == want, "offset encoding uses git's minimal length");
        kani::cover!(n == 10);
        kani::cover!(n == 1);
    }

    /// Both decoders agree on arbitrary bytes whose continuation chains are within what 64 bits hold.
    #[kani::proof]
    #[kani::unwind(24)]
    #[kani::stub(alloc::fmt::format, crate::util::stub_format)]
    pub fn c07_decoders_agree() {
        let d: [u8; 40] = kani::any();
        // size continuation: at most 9 bytes after the first; distance: at most 10 bytes
        let mut i = 0;
        while i < 9 && d[i] & 0x80 != 0 {
            i += 1;
        }
        kani::assume(d[i] & 0x80 == 0);
        let hdr_len = i + 1;
        let type_id = (d[0] >> 4) & 7;
        if type_id == 6 {
            let mut j = 0;
            while j < 9 && d[hdr_len + j] & 0x80 != 0 {
                j += 1;
            }
            kani::assume(d[hdr_len + j] & 0x80 == 0);
        }
        let pack_offset: u64 = kani::any();
        kani::assume(pack_offset < u64::MAX - 64);
        let a = Entry::from_bytes(&d[..], pack_offset, 20);
        let mut rd: &[u8] = &d[..];
        let b = Entry::from_read(&mut rd, pack_offset, 20);
        match (a, b) {
            (Ok(a), Ok(b)) => {
                assert!(a.header == b.header && a.decompressed_size == b.decompressed_size && a.data_offset == b.data_offset);
                assert!((40 - rd.len()) as u64 == a.data_offset - pack_offset);
                kani::cover!(matches!(a.header, Header::OfsDelta { .. }), "ofs delta decoded");
                kani::cover!(matches!(a.header, Header::RefDelta { .. }), "ref delta decoded");
                // and re-encoding gives back the same bytes when the input was canonical
                let mut out = FixedBuf::<32>::new();
                let n = a.header.write_to(a.decompressed_size, &mut out).unwrap_or(0);
                assert!(n as u64 <= a.data_offset - pack_offset, "the writer never needs more bytes than a decodable input had");
            }
            (Err(e), Err(f)) => {
                std::mem::forget(e);
                std::mem::forget(f);
                assert!(type_id == 0 || type_id == 5);
                kani::cover!(true, "unsupported type rejected by both");
            }
            (a, b) => {
                std::mem::forget(a);
                std::mem::forget(b);
                assert!(false, "memory and stream decoders disagree on acceptance");
            }
        }
    }

    /// delta size headers: agrees with git's get_delta_hdr_size on arbitrary bytes (<= 9 continuation bytes: within 64 bits).
    pub fn delta_hdr<const N: usize>() {
        let d: [u8; N] = kani::any();
        let (size, consumed) = delta_decode_header_size(&d);
        let (msize, mconsumed) = model_delta_hdr_size(&d);
        assert!(consumed == mconsumed);
        assert!(size == msize);
        kani::cover!(consumed == N, "all bytes consumed");
        kani::cover!(N < 2 || consumed == 1, "stops at the first byte without continuation bit");
    }
    #[kani::proof]
    #[kani::unwind(11)]
    pub fn c07_delta_hdr_0() {
        delta_hdr::<0>()
    }
    #[kani::proof]
    #[kani::unwind(11)]
    pub fn c07_delta_hdr_3() {
        delta_hdr::<3>()
    }
    #[kani::proof]
    #[kani::unwind(11)]
    pub fn c07_delta_hdr_9() {
        delta_hdr::<9>()
    }

    /// delta application: whenever git's patch_delta accepts (base, delta, result size), apply() produces the same bytes without panicking.
    pub fn delta_apply_vs_model<const B: usize, const D: usize, const T: usize>() {
        let base: [u8; B] = kani::any();
        let data: [u8; D] = kani::any();
        let mut want = [0u8; T];
        let ok = model_patch_delta(&base, &mut want, &data);
        kani::assume(ok.is_some());
        let mut got = [0xAAu8; T];
        delta_apply(&base, &mut got, &data);
        let k: usize = kani::any();
        kani::assume(k < T);
        assert!(got[k] == want[k], "apply() produced git's bytes");
        kani::cover!(data[0] & 0x80 != 0, "starts with a copy");
        kani::cover!(data[0] & 0x80 == 0, "starts with an insert");
    }
    macro_rules! delta_instances {
        ($($name:ident = ($b:literal, $d:literal, $t:literal)),*) => {$(
            #[kani::proof]
            #[kani::unwind(10)]
            pub fn $name() { delta_apply_vs_model::<$b, $d, $t>() }
        )*};
    }
    delta_instances!(
        c07_delta_apply_b4_d4_t3 = (4, 4, 3),
        c07_delta_apply_b4_d5_t4 = (4, 5, 4),
        c07_delta_apply_b3_d6_t4 = (3, 6, 4),
        c07_delta_apply_b4_d8_t5 = (4, 8, 5),
        c07_delta_apply_b2_d7_t6 = (2, 7, 6)
    );
}
