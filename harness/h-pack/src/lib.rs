//! Kani harnesses over the real gitoxide crates (path dependencies on /repo).
#![allow(dead_code, unused_imports, clippy::all)]

#[path = "../../common/util.rs"]
pub mod util;

#[cfg(kani)]
mod smoke {
    #[kani::proof]
    pub fn smoke() {
        let x: u8 = kani::any();
        assert!(x as u16 <= 255);
        kani::cover!(x == 7);
    }
}
