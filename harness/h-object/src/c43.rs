//! C43 — content filters agree with git (end-of-line conversion; ident and external drivers are outside).
use gix_filter::eol::{self, AttributesDigest, AutoCrlf, Configuration, Mode, Stats};

/// git's `struct text_stat` as filled by `gather_stats()` (convert.c).
#[derive(Clone, Copy, Default, PartialEq, Eq, Debug)]
pub struct TextStat {
    pub nul: u32,
    pub lonecr: u32,
    pub lonelf: u32,
    pub crlf: u32,
    pub printable: u32,
    pub nonprintable: u32,
}

pub fn model_gather_stats(buf: &[u8]) -> TextStat {
    let mut s = TextStat::default();
    let size = buf.len();
    let mut i = 0;
    while i < size {
        let c = buf[i];
        if c == b'\r' {
            if i + 1 < size && buf[i + 1] == b'\n' {
                s.crlf += 1;
                i += 1;
            } else {
                s.lonecr += 1;
            }
            i += 1;
            continue;
        }
        if c == b'\n' {
            s.lonelf += 1;
            i += 1;
            continue;
        }
        if c == 127 {
            s.nonprintable += 1;
        } else if c < 32 {
            match c {
                8 | 9 | 27 | 12 => s.printable += 1,
                0 => {
                    s.nul += 1;
                    s.nonprintable += 1;
                }
                _ => s.nonprintable += 1,
            }
        } else {
            s.printable += 1;
        }
        i += 1;
    }
    // "If file ends with EOF then don't count this EOF as non-printable."
    if size >= 1 && buf[size - 1] == 0x1a {
        s.nonprintable -= 1;
    }
    s
}

pub fn model_is_binary(s: &TextStat) -> bool {
    s.lonecr > 0 || s.nul > 0 || (s.printable >> 7) < s.nonprintable
}

/// git's `enum convert_crlf_action` restricted to what a digest can express.
pub fn is_auto(d: AttributesDigest) -> bool {
    matches!(d, AttributesDigest::TextAuto | AttributesDigest::TextAutoCrlf | AttributesDigest::TextAutoInput)
}

/// git's `output_eol()`: true = CRLF.
pub fn model_output_is_crlf(d: AttributesDigest, cfg: Configuration) -> bool {
    match d {
        AttributesDigest::Binary => false,
        AttributesDigest::TextCrlf | AttributesDigest::TextAutoCrlf => true,
        AttributesDigest::TextInput | AttributesDigest::TextAutoInput => false,
        AttributesDigest::Text | AttributesDigest::TextAuto => match cfg.auto_crlf {
            AutoCrlf::Enabled => true,
            AutoCrlf::Input => false,
            AutoCrlf::Disabled => match cfg.eol {
                Some(Mode::CrLf) => true,
                Some(Mode::Lf) => false,
                None => cfg!(windows),
            },
        },
    }
}

pub fn model_will_convert_lf_to_crlf(s: &TextStat, d: AttributesDigest, cfg: Configuration) -> bool {
    if !model_output_is_crlf(d, cfg) {
        return false;
    }
    if s.lonelf == 0 {
        return false;
    }
    if is_auto(d) {
        if s.lonecr > 0 || s.crlf > 0 {
            return false;
        }
        if model_is_binary(s) {
            return false;
        }
    }
    true
}

#[derive(Clone, Copy, PartialEq, Eq, Debug)]
pub enum ToGit {
    /// content is stored as is
    Unchanged,
    /// converted content of the given length was written to `out`
    Converted(usize),
    /// core.safecrlf=true refuses
    SafeCrlfRefuses,
}

/// git's `crlf_to_git()`; `index_blob` is the blob currently in the index for the path (None: not in the index / renormalize).
pub fn model_crlf_to_git(src: &[u8], d: AttributesDigest, cfg: Configuration, index_blob: Option<&[u8]>, safecrlf_die: bool, safecrlf_any: bool, out: &mut [u8]) -> ToGit {
    if d == AttributesDigest::Binary || src.is_empty() {
        return ToGit::Unchanged;
    }
    let stats = model_gather_stats(src);
    let mut convert = stats.crlf > 0;
    if is_auto(d) {
        if model_is_binary(&stats) {
            return ToGit::Unchanged;
        }
        if let Some(blob) = index_blob {
            let mut has_cr = false;
            let mut i = 0;
            while i < blob.len() {
                has_cr |= blob[i] == b'\r';
                i += 1;
            }
            if has_cr {
                let bs = model_gather_stats(blob);
                if !model_is_binary(&bs) && bs.crlf > 0 {
                    convert = false;
                }
            }
        }
    }
    if safecrlf_any {
        let mut n = stats;
        if convert {
            n.lonelf += n.crlf;
            n.crlf = 0;
        }
        if model_will_convert_lf_to_crlf(&n, d, cfg) {
            n.crlf += n.lonelf;
            n.lonelf = 0;
        }
        if stats.crlf > 0 && n.crlf == 0 {
            if safecrlf_die {
                return ToGit::SafeCrlfRefuses;
            }
        } else if stats.lonelf > 0 && n.lonelf == 0 && safecrlf_die {
            return ToGit::SafeCrlfRefuses;
        }
    }
    if !convert {
        return ToGit::Unchanged;
    }
    let mut o = 0;
    let mut i = 0;
    let len = src.len();
    if is_auto(d) {
        while i < len {
            if src[i] != b'\r' {
                out[o] = src[i];
                o += 1;
            }
            i += 1;
        }
    } else {
        while i < len {
            let c = src[i];
            if !(c == b'\r' && i + 1 < len && src[i + 1] == b'\n') {
                out[o] = c;
                o += 1;
            }
            i += 1;
        }
    }
    ToGit::Converted(o)
}

/// git's `crlf_to_worktree()`: None = unchanged, Some(len) = converted into `out`.
pub fn model_crlf_to_worktree(src: &[u8], d: AttributesDigest, cfg: Configuration, out: &mut [u8]) -> Option<usize> {
    if src.is_empty() || !model_output_is_crlf(d, cfg) {
        return None;
    }
    let stats = model_gather_stats(src);
    if !model_will_convert_lf_to_crlf(&stats, d, cfg) {
        return None;
    }
    let mut o = 0;
    let mut i = 0;
    while i < src.len() {
        let c = src[i];
        if c == b'\n' && !(i > 0 && src[i - 1] == b'\r') {
            out[o] = b'\r';
            o += 1;
        }
        out[o] = c;
        o += 1;
        i += 1;
    }
    Some(o)
}

pub const DIGESTS: [AttributesDigest; 7] = [
    AttributesDigest::Binary,
    AttributesDigest::Text,
    AttributesDigest::TextInput,
    AttributesDigest::TextCrlf,
    AttributesDigest::TextAuto,
    AttributesDigest::TextAutoCrlf,
    AttributesDigest::TextAutoInput,
];

#[cfg(test)]
mod tests {
    use super::*;
    use std::io::Write;
    use std::process::{Command, Stdio};

    const EXT: [(&str, &str); 7] = [
        ("bin", "-text"),
        ("txt", "text"),
        ("lf", "text eol=lf"),
        ("crlf", "text eol=crlf"),
        ("auto", "text=auto"),
        ("autocrlf", "text=auto eol=crlf"),
        ("autolf", "text=auto eol=lf"),
    ];

    fn contents() -> Vec<Vec<u8>> {
        let alphabet: &[u8] = b"a\r\n\x00\x1a\x7f";
        let mut all = vec![];
        for len in 1..=4usize {
            let mut idx = vec![0usize; len];
            loop {
                all.push(idx.iter().map(|i| alphabet[*i]).collect::<Vec<u8>>());
                let mut k = 0;
                while k < len {
                    idx[k] += 1;
                    if idx[k] < alphabet.len() {
                        break;
                    }
                    idx[k] = 0;
                    k += 1;
                }
                if k == len {
                    break;
                }
            }
        }
        all
    }

    fn git_batch(dir: &std::path::Path, cfg: &[String], args: &[&str], stdin: &[u8]) -> Vec<u8> {
        // stdin comes from a file: writing a large list into a pipe before reading stdout deadlocks
        let inp = dir.join("stdin.tmp");
        std::fs::write(&inp, stdin).unwrap();
        let mut c = Command::new("git");
        c.current_dir(dir);
        for kv in cfg {
            c.arg("-c").arg(kv);
        }
        let o = c.args(args).stdin(Stdio::from(std::fs::File::open(&inp).unwrap())).output().unwrap();
        assert!(o.status.success(), "git {:?} failed: {}", args, String::from_utf8_lossy(&o.stderr));
        o.stdout
    }

    /// The to-git model is git's: for every content over {a, CR, LF, NUL, ^Z, DEL} up to 4 bytes, every attribute
    /// combination and every core.autocrlf / core.eol setting, `git hash-object --path` stores exactly the model's bytes;
    /// and `git cat-file --filters` writes exactly the to-worktree model's bytes.
    #[test]
    fn models_match_git_convert() {
        if Command::new("git").arg("--version").output().is_err() {
            return;
        }
        let dir = std::env::temp_dir().join(format!("verif-c43-{}", std::process::id()));
        let _ = std::fs::remove_dir_all(&dir);
        std::fs::create_dir_all(dir.join("in")).unwrap();
        std::fs::create_dir_all(dir.join("want")).unwrap();
        git_batch(&dir, &[], &["init", "-q", "."], b"");
        let mut attrs = String::new();
        for (e, a) in EXT {
            attrs.push_str(&format!("*.{e} {a}\n"));
        }
        std::fs::write(dir.join(".gitattributes"), attrs).unwrap();
        let contents = contents();
        for (i, c) in contents.iter().enumerate() {
            for (e, _) in EXT {
                std::fs::write(dir.join(format!("in/{i}.{e}")), c).unwrap();
            }
        }
        let mut disagreements = 0;
        let mut checked = 0;
        for (ac_name, ac) in [("false", AutoCrlf::Disabled), ("true", AutoCrlf::Enabled), ("input", AutoCrlf::Input)] {
            for (eol_name, eolm) in [("native", None), ("lf", Some(Mode::Lf)), ("crlf", Some(Mode::CrLf))] {
                if ac != AutoCrlf::Disabled && eol_name == "crlf" {
                    continue; // git refuses core.autocrlf=true|input together with core.eol=crlf
                }
                let cfg = Configuration { auto_crlf: ac, eol: eolm };
                let gitcfg = vec![format!("core.autocrlf={ac_name}"), format!("core.eol={eol_name}"), "core.safecrlf=false".to_string()];
                // 1. what git stores
                let mut paths = String::new();
                let mut want_paths = String::new();
                let mut wt_jobs: Vec<(usize, usize, Option<Vec<u8>>)> = vec![];
                for (i, c) in contents.iter().enumerate() {
                    for (k, (e, _)) in EXT.iter().enumerate() {
                        paths.push_str(&format!("in/{i}.{e}\n"));
                        let mut out = vec![0u8; 16];
                        let want = match model_crlf_to_git(c, DIGESTS[k], cfg, None, false, false, &mut out) {
                            ToGit::Unchanged => c.clone(),
                            ToGit::Converted(n) => out[..n].to_vec(),
                            ToGit::SafeCrlfRefuses => unreachable!(),
                        };
                        std::fs::write(dir.join(format!("want/{i}.{e}")), &want).unwrap();
                        want_paths.push_str(&format!("want/{i}.{e}\n"));
                        let mut out = vec![0u8; 16];
                        let wt = model_crlf_to_worktree(c, DIGESTS[k], cfg, &mut out).map(|n| out[..n].to_vec());
                        wt_jobs.push((i, k, wt));
                    }
                }
                let got = git_batch(&dir, &gitcfg, &["hash-object", "--stdin-paths"], paths.as_bytes());
                let want = git_batch(&dir, &gitcfg, &["hash-object", "--no-filters", "--stdin-paths"], want_paths.as_bytes());
                let got: Vec<&[u8]> = got.split(|b| *b == b'\n').collect();
                let want: Vec<&[u8]> = want.split(|b| *b == b'\n').collect();
                assert_eq!(got.len(), want.len());
                let mut n = 0;
                for (i, c) in contents.iter().enumerate() {
                    for (e, _) in EXT {
                        if got[n] != want[n] {
                            eprintln!("to-git mismatch: content {:?} ext {e} autocrlf={ac_name} eol={eol_name}", bstr::BStr::new(c));
                            disagreements += 1;
                        }
                        checked += 1;
                        n += 1;
                    }
                    let _ = i;
                }
                // 2. what git checks out: store raw blobs, then ask for the filtered form
                let mut raw_paths = String::new();
                for (i, _) in contents.iter().enumerate() {
                    raw_paths.push_str(&format!("in/{i}.bin\n"));
                }
                let ids = git_batch(&dir, &gitcfg, &["hash-object", "-w", "--no-filters", "--stdin-paths"], raw_paths.as_bytes());
                let ids: Vec<String> = String::from_utf8(ids).unwrap().lines().map(str::to_owned).collect();
                for (i, k, wt) in wt_jobs.iter().filter(|(i, _, _)| i % 11 == 0) {
                    let o = Command::new("git")
                        .current_dir(&dir)
                        .args(gitcfg.iter().flat_map(|kv| ["-c".to_string(), kv.clone()]))
                        .args(["cat-file", "--filters", &format!("--path=x.{}", EXT[*k].0), &ids[*i]])
                        .output()
                        .unwrap();
                    assert!(o.status.success());
                    let want = wt.clone().unwrap_or_else(|| contents[*i].clone());
                    if o.stdout != want {
                        eprintln!("to-worktree mismatch: content {:?} ext {} autocrlf={ac_name} eol={eol_name}", bstr::BStr::new(&contents[*i]), EXT[*k].0);
                        disagreements += 1;
                    }
                    checked += 1;
                }
            }
        }
        let _ = std::fs::remove_dir_all(&dir);
        assert_eq!(disagreements, 0, "model and git disagree");
        assert!(checked > 40_000);
    }
}

#[cfg(kani)]
pub mod proofs {
    use super::*;

    fn any_digest() -> AttributesDigest {
        let k: u8 = kani::any();
        kani::assume(k < 7);
        DIGESTS[k as usize]
    }
    fn any_config() -> Configuration {
        Configuration {
            auto_crlf: match kani::any::<u8>() % 3 {
                0 => AutoCrlf::Disabled,
                1 => AutoCrlf::Enabled,
                _ => AutoCrlf::Input,
            },
            eol: match kani::any::<u8>() % 3 {
                0 => None,
                1 => Some(Mode::Lf),
                _ => Some(Mode::CrLf),
            },
        }
    }

    fn ends_with_ctrl_z(src: &[u8]) -> bool {
        !src.is_empty() && src[src.len() - 1] == 0x1a
    }

    /// Statistics and the binary/text decision equal git's gather_stats / convert_is_binary.
    pub fn stats<const N: usize>(ctrl_z_case: bool) {
        let src: [u8; N] = kani::any();
        kani::assume(ends_with_ctrl_z(&src) == ctrl_z_case);
        let want = model_gather_stats(&src);
        let got = Stats::from_bytes(&src);
        assert!(got.null == want.nul as usize && got.lone_cr == want.lonecr as usize && got.lone_lf == want.lonelf as usize && got.crlf == want.crlf as usize);
        assert!(got.printable == want.printable as usize, "printable count");
        assert!(got.non_printable == want.nonprintable as usize, "non-printable count (git does not count a trailing ^Z)");
        assert!(got.is_binary() == model_is_binary(&want), "binary/text decision");
        kani::cover!(want.crlf == 1, "a CRLF pair");
    }
    #[kani::proof]
    #[kani::unwind(7)]
    pub fn c43_stats_5() {
        stats::<5>(false)
    }
    #[kani::proof]
    #[kani::unwind(5)]
    pub fn c43_stats_3() {
        stats::<3>(false)
    }
    /// Contents ending in ^Z (0x1a): a former defect (fixed), kept as its own query.
    #[kani::proof]
    #[kani::unwind(5)]
    pub fn c43_stats_ctrl_z() {
        stats::<3>(true)
    }

    /// to-git conversion equals git's crlf_to_git for every content of N bytes, every digest and configuration,
    /// with and without an index blob (IB bytes; IB = 0: not in the index), with core.safecrlf off / warn / true.
    pub fn to_git<const N: usize, const IB: usize>() {
        let src: [u8; N] = kani::any();
        let digest = any_digest();
        let cfg = any_config();
        let blob: [u8; IB] = kani::any();
        let safecrlf: u8 = kani::any();
        kani::assume(safecrlf < 3); // 0 off, 1 warn, 2 fail
        let mut want_out = [0u8; N];
        let want = model_crlf_to_git(&src, digest, cfg, if IB > 0 { Some(&blob[..]) } else { None }, safecrlf == 2, safecrlf != 0, &mut want_out);
        let mut buf: Vec<u8> = Vec::new();
        let path = std::path::Path::new("p");
        let mut index_object = |b: &mut Vec<u8>| -> Result<Option<()>, Box<dyn std::error::Error + Send + Sync>> {
            if IB > 0 {
                b.clear();
                b.extend_from_slice(&blob);
                Ok(Some(()))
            } else {
                Ok(None)
            }
        };
        let res = eol::convert_to_git(
            &src,
            digest,
            &mut buf,
            &mut index_object,
            eol::convert_to_git::Options {
                round_trip_check: match safecrlf {
                    0 => None,
                    1 => Some(eol::convert_to_git::RoundTripCheck::Warn { rela_path: path }),
                    _ => Some(eol::convert_to_git::RoundTripCheck::Fail { rela_path: path }),
                },
                config: cfg,
            },
        );
        match res {
            Ok(false) => assert!(want == ToGit::Unchanged, "gitoxide stores the content unchanged, git would convert or refuse"),
            Ok(true) => match want {
                ToGit::Converted(n) => {
                    assert!(buf.len() == n, "same converted length as git");
                    let k: usize = kani::any();
                    kani::assume(k < n);
                    assert!(buf[k] == want_out[k], "same converted bytes as git");
                }
                _ => assert!(false, "gitoxide converts, git would not"),
            },
            Err(e) => {
                std::mem::forget(e);
                assert!(want == ToGit::SafeCrlfRefuses, "gitoxide refuses (safecrlf), git would not");
                kani::cover!(true, "safecrlf refusal");
            }
        }
        kani::cover!(N < 2 || matches!(want, ToGit::Converted(_)), "converted");
        kani::cover!(want == ToGit::Unchanged && digest != AttributesDigest::Binary, "left unchanged");
        std::mem::forget(buf);
    }
    macro_rules! tg {
        ($($name:ident = ($n:literal, $ib:literal, $u:literal)),* $(,)?) => {$(
            #[kani::proof]
            #[kani::unwind($u)]
            #[kani::stub(alloc::fmt::format, crate::util::stub_format)]
            pub fn $name() { to_git::<$n, $ib>() }
        )*};
    }
    tg!(c43_to_git_1 = (1, 0, 4), c43_to_git_2 = (2, 0, 5), c43_to_git_3 = (3, 0, 6), c43_to_git_4 = (4, 0, 7), c43_to_git_3_ib2 = (3, 2, 6), c43_to_git_2_ib3 = (2, 3, 6));

    /// to-worktree conversion equals git's crlf_to_worktree.
    pub fn to_worktree<const N: usize, const OUT: usize>() {
        let src: [u8; N] = kani::any();
        let digest = any_digest();
        let cfg = any_config();
        let mut want_out = [0u8; OUT];
        let want = model_crlf_to_worktree(&src, digest, cfg, &mut want_out);
        let mut buf: Vec<u8> = Vec::new();
        let res = eol::convert_to_worktree(&src, digest, &mut buf, cfg);
        match res {
            Ok(false) => assert!(want.is_none(), "gitoxide writes the content unchanged, git would add CRs"),
            Ok(true) => match want {
                Some(n) => {
                    assert!(buf.len() == n, "same converted length as git");
                    let k: usize = kani::any();
                    kani::assume(k < n);
                    assert!(buf[k] == want_out[k], "same converted bytes as git");
                    kani::cover!(true, "converted");
                }
                None => assert!(false, "gitoxide converts, git would not"),
            },
            Err(e) => {
                std::mem::forget(e);
                assert!(false, "allocation cannot fail here");
            }
        }
        kani::cover!(want.is_none() && digest == AttributesDigest::TextCrlf, "nothing to do");
        std::mem::forget(buf);
    }
    macro_rules! tw {
        ($($name:ident = ($n:literal, $o:literal, $u:literal)),* $(,)?) => {$(
            #[kani::proof]
            #[kani::unwind($u)]
            pub fn $name() { to_worktree::<$n, $o>() }
        )*};
    }
    tw!(c43_to_worktree_1 = (1, 2, 4), c43_to_worktree_2 = (2, 4, 5), c43_to_worktree_3 = (3, 6, 6));
}
