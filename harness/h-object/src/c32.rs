//! C32 — refspec matching agrees with git (glob matching kernel: `match_name_with_pattern`).
use bstr::{BStr, ByteSlice};
use gix_hash::ObjectId;
use gix_refspec::match_group::Item;

/// git's `match_name_with_pattern()` (remote.c) for key = a '*' b and value = c '*' d.
/// Returns None when the name does not match, else the length of the destination written to `out`.
pub fn model_match_name_with_pattern(a: &[u8], b: &[u8], name: &[u8], c: &[u8], d: &[u8], out: &mut [u8]) -> Option<usize> {
    let (klen, ksuffixlen, namelen) = (a.len(), b.len(), name.len());
    if namelen < klen + ksuffixlen {
        return None;
    }
    let mut i = 0;
    while i < klen {
        if name[i] != a[i] {
            return None;
        }
        i += 1;
    }
    i = 0;
    while i < ksuffixlen {
        if name[namelen - ksuffixlen + i] != b[i] {
            return None;
        }
        i += 1;
    }
    let mut o = 0;
    i = 0;
    while i < c.len() {
        out[o] = c[i];
        o += 1;
        i += 1;
    }
    i = klen;
    while i < namelen - ksuffixlen {
        out[o] = name[i];
        o += 1;
        i += 1;
    }
    i = 0;
    while i < d.len() {
        out[o] = d[i];
        o += 1;
        i += 1;
    }
    Some(o)
}

#[cfg(test)]
mod tests {
    use super::*;
    #[test]
    fn model_examples() {
        let mut out = [0u8; 32];
        // refs/heads/*:refs/remotes/origin/*  on refs/heads/main
        let n = model_match_name_with_pattern(b"refs/heads/", b"", b"refs/heads/main", b"refs/remotes/origin/", b"", &mut out).unwrap();
        assert_eq!(&out[..n], b"refs/remotes/origin/main");
        // overlap: a*a does not match "a"
        assert_eq!(model_match_name_with_pattern(b"a", b"a", b"a", b"x", b"", &mut out), None);
        let n = model_match_name_with_pattern(b"a", b"a", b"aa", b"x", b"y", &mut out).unwrap();
        assert_eq!(&out[..n], b"xy");
    }
}

#[cfg(kani)]
pub mod proofs {
    use super::*;
    use gix_refspec::verif_hooks::matches_lhs;

    fn no_star<const N: usize>(x: &[u8; N]) -> bool {
        let mut ok = true;
        let mut i = 0;
        while i < N {
            ok &= x[i] != b'*';
            i += 1;
        }
        ok
    }

    /// One glob fetch spec `<a>*<b>:<c>*<d>` against one remote ref `<name>`: same verdict and same destination as git, no panic.
    pub fn glob<const A: usize, const B: usize, const N: usize, const PL: usize, const OUT: usize>(with_dst: bool) {
        let a: [u8; A] = kani::any();
        let b: [u8; B] = kani::any();
        let name: [u8; N] = kani::any();
        kani::assume(no_star(&a) && no_star(&b));
        // the pattern must not look like a full name (`refs/...` is handled the same way) - it is a glob because of '*'
        let mut pat = [0u8; PL];
        let mut i = 0;
        while i < A {
            pat[i] = a[i];
            i += 1;
        }
        pat[A] = b'*';
        i = 0;
        while i < B {
            pat[A + 1 + i] = b[i];
            i += 1;
        }
        let c = *b"x";
        let d: [u8; 1] = kani::any();
        kani::assume(d[0] != b'*');
        let dst = [c[0], b'*', d[0]];
        let id = ObjectId::null(gix_hash::Kind::Sha1);
        let item = Item { full_ref_name: name[..].as_bstr(), target: &id, object: None };
        let mut want_out = [0u8; OUT];
        let want = model_match_name_with_pattern(&a, &b, &name, &c, &d, &mut want_out);
        let (matched, rhs) = matches_lhs(Some(pat[..].as_bstr()), if with_dst { Some(dst[..].as_bstr()) } else { None }, item);
        assert!(matched == want.is_some(), "same match verdict as git's match_name_with_pattern");
        if with_dst {
            match (rhs, want) {
                (Some(r), Some(n)) => {
                    let r: &[u8] = r.as_ref();
                    assert!(r.len() == n, "destination has git's length");
                    let k: usize = kani::any();
                    kani::assume(k < n);
                    assert!(r[k] == want_out[k], "destination has git's bytes");
                }
                (None, None) => {}
                _ => assert!(false, "destination present exactly when matched"),
            }
        } else {
            assert!(rhs.is_none());
        }
        kani::cover!(N < A + B || want.is_some(), "match");
        kani::cover!(A + B == 0 || want.is_none(), "no match");
    }
    macro_rules! g {
        ($($name:ident = ($a:literal, $b:literal, $n:literal, $pl:literal, $out:literal, $dst:literal)),* $(,)?) => {$(
            #[kani::proof]
            #[kani::unwind(8)]
            #[kani::stub(alloc::fmt::format, crate::util::stub_format)]
            pub fn $name() { glob::<$a, $b, $n, $pl, $out>($dst) }
        )*};
    }
    g!(
        c32_glob_1_1_1 = (1, 1, 1, 3, 4, true),
        c32_glob_1_1_1_nodst = (1, 1, 1, 3, 4, false),
        c32_glob_1_1_2 = (1, 1, 2, 3, 4, true),
        c32_glob_1_1_3 = (1, 1, 3, 3, 5, true),
        c32_glob_2_1_2 = (2, 1, 2, 4, 4, true),
        c32_glob_1_2_2 = (1, 2, 2, 4, 4, true),
        c32_glob_0_1_2 = (0, 1, 2, 2, 5, true),
        c32_glob_1_0_2 = (1, 0, 2, 2, 5, true),
        c32_glob_0_0_2 = (0, 0, 2, 1, 6, true),
        c32_glob_2_2_3 = (2, 2, 3, 5, 5, true),
        c32_glob_2_1_4 = (2, 1, 4, 4, 6, true),
    );
}


