//! C03 — tree entry ordering and name lookup match git.
use bstr::{BStr, BString, ByteSlice};
use gix_hash::ObjectId;
use gix_object::{tree, TreeRef};
use std::cmp::Ordering;

/// git's `S_ISDIR` on a raw tree-entry mode.
#[inline]
pub fn s_isdir(mode: u16) -> bool {
    mode & 0o170000 == 0o040000
}

/// Transcription of git's `base_name_compare()` (tree.c / read-cache.c): compare the common prefix,
/// then the next character, where a directory's name is followed by an implicit '/' and any
/// other name by NUL.
pub fn base_name_compare(n1: &[u8], m1: u16, n2: &[u8], m2: u16) -> Ordering {
    let len = if n1.len() < n2.len() { n1.len() } else { n2.len() };
    let mut i = 0;
    while i < len {
        if n1[i] != n2[i] {
            return if n1[i] < n2[i] { Ordering::Less } else { Ordering::Greater };
        }
        i += 1;
    }
    let c1 = if n1.len() > len { n1[len] } else if s_isdir(m1) { b'/' } else { 0 };
    let c2 = if n2.len() > len { n2[len] } else if s_isdir(m2) { b'/' } else { 0 };
    c1.cmp(&c2)
}

#[cfg(test)]
mod model_tests {
    use super::*;
    #[test]
    fn git_order_examples() {
        // `git mktree`/`git ls-tree` order: "a" (blob) < "a.b" < "a" (tree) == "a/" < "a0"
        assert_eq!(base_name_compare(b"a", 0o100644, b"a.b", 0o100644), Ordering::Less);
        assert_eq!(base_name_compare(b"a.b", 0o100644, b"a", 0o040000), Ordering::Less);
        assert_eq!(base_name_compare(b"a", 0o040000, b"a0", 0o100644), Ordering::Less);
        assert_eq!(base_name_compare(b"a", 0o040000, b"a", 0o100644), Ordering::Greater);
        assert_eq!(base_name_compare(b"a", 0o160000, b"a", 0o100644), Ordering::Equal);
    }
}

#[cfg(kani)]
pub mod proofs {
    use super::*;

    /// Up to four separate name buffers. NOTE: a nested `[[u8; 2]; K]` must not be used here: Kani 0.68 mis-models
    /// slices of rows >= 1 of nested byte arrays (measured: `&n[1][..]` reads other memory than `n[1][0]`).
    pub struct Names {
        r0: [u8; 2],
        r1: [u8; 2],
        r2: [u8; 2],
        r3: [u8; 2],
    }
    impl Names {
        pub fn any() -> Self {
            Names { r0: kani::any(), r1: kani::any(), r2: kani::any(), r3: kani::any() }
        }
        pub fn row(&self, i: usize) -> &[u8; 2] {
            match i {
                0 => &self.r0,
                1 => &self.r1,
                2 => &self.r2,
                _ => &self.r3,
            }
        }
    }

    fn valid_name<const N: usize>(n: &[u8; N]) -> bool {
        let mut ok = true;
        let mut i = 0;
        while i < N {
            ok &= n[i] != 0 && n[i] != b'/';
            i += 1;
        }
        ok
    }

    /// `Ord for EntryRef` and `Ord for Entry` equal git's base_name_compare for names of A and B bytes and all modes.
    pub fn cmp_vs_git<const A: usize, const B: usize>() {
        let n1: [u8; A] = kani::any();
        let n2: [u8; B] = kani::any();
        kani::assume(valid_name(&n1) && valid_name(&n2));
        let m1: u16 = kani::any();
        let m2: u16 = kani::any();
        let id = ObjectId::null(gix_hash::Kind::Sha1);
        let e1 = tree::EntryRef { mode: tree::EntryMode(m1), filename: n1[..].as_bstr(), oid: &id };
        let e2 = tree::EntryRef { mode: tree::EntryMode(m2), filename: n2[..].as_bstr(), oid: &id };
        let want = base_name_compare(&n1, m1, &n2, m2);
        let got = e1.cmp(&e2);
        assert!(got == want, "EntryRef order equals git's base_name_compare");
        assert!(e2.cmp(&e1) == want.reverse(), "antisymmetric");
        let o1 = tree::Entry { mode: tree::EntryMode(m1), filename: BString::from(&n1[..]), oid: id };
        let o2 = tree::Entry { mode: tree::EntryMode(m2), filename: BString::from(&n2[..]), oid: id };
        assert!(o1.cmp(&o2) == want, "Entry order equals git's base_name_compare");
        std::mem::forget(o1);
        std::mem::forget(o2);
        kani::cover!(A != B || (want == Ordering::Equal && m1 != m2), "equal across different non-tree modes");
        kani::cover!(A >= B || (want == Ordering::Less && s_isdir(m1)), "directory sorts by implicit slash");
        kani::cover!(A > B || (want == Ordering::Greater && s_isdir(m1)), "directory after file with smaller next byte");
    }

    macro_rules! cmp_instances {
        ($($name:ident = ($a:literal, $b:literal)),*) => {$(
            #[kani::proof]
            #[kani::unwind(5)]
            pub fn $name() { cmp_vs_git::<$a, $b>() }
        )*};
    }
    cmp_instances!(
        c03_cmp_1_1 = (1, 1), c03_cmp_1_2 = (1, 2), c03_cmp_1_3 = (1, 3),
        c03_cmp_2_1 = (2, 1), c03_cmp_2_2 = (2, 2), c03_cmp_2_3 = (2, 3),
        c03_cmp_3_1 = (3, 1), c03_cmp_3_2 = (3, 2), c03_cmp_3_3 = (3, 3)
    );
    macro_rules! cmp_instances_big {
        ($($name:ident = ($a:literal, $b:literal)),*) => {$(
            #[kani::proof]
            #[kani::unwind(8)]
            pub fn $name() { cmp_vs_git::<$a, $b>() }
        )*};
    }
    cmp_instances_big!(c03_cmp_4_6 = (4, 6), c03_cmp_6_4 = (6, 4), c03_cmp_6_6 = (6, 6));

    /// The order is transitive on three entries (needed for sort / binary search to be meaningful).
    #[kani::proof]
    #[kani::unwind(5)]
    pub fn c03_order_transitive() {
        let n = Names::any();
        let l: [usize; 3] = kani::any();
        let m: [u16; 3] = kani::any();
        kani::assume(l[0] >= 1 && l[0] <= 2 && l[1] >= 1 && l[1] <= 2 && l[2] >= 1 && l[2] <= 2);
        kani::assume(valid_name(n.row(0)) && valid_name(n.row(1)) && valid_name(n.row(2)));
        let id = ObjectId::null(gix_hash::Kind::Sha1);
        let e = |i: usize| tree::EntryRef { mode: tree::EntryMode(m[i]), filename: n.row(i)[..l[i]].as_bstr(), oid: &id };
        let (a, b, c) = (e(0), e(1), e(2));
        if a.cmp(&b) != Ordering::Greater && b.cmp(&c) != Ordering::Greater {
            assert!(a.cmp(&c) != Ordering::Greater);
            if a.cmp(&b) == Ordering::Less || b.cmp(&c) == Ordering::Less {
                assert!(a.cmp(&c) == Ordering::Less);
            }
        }
        kani::cover!(a.cmp(&b) == Ordering::Less && b.cmp(&c) == Ordering::Less && l[0] == 1 && l[1] == 2 && l[2] == 1);
    }

    /// `TreeRef::bisect_entry(name, is_dir)` on K entries sorted in git order: finds an entry exactly
    /// when a linear scan finds one with that name and that directory-ness, and returns that entry.
    pub fn bisect<const K: usize>() {
        let n = Names::any();
        let l: [usize; K] = kani::any();
        let m: [u16; K] = kani::any();
        let id = ObjectId::null(gix_hash::Kind::Sha1);
        let mut entries = Vec::with_capacity(K);
        let mut i = 0;
        while i < K {
            kani::assume(l[i] >= 1 && l[i] <= 2 && valid_name(n.row(i)));
            entries.push(tree::EntryRef { mode: tree::EntryMode(m[i]), filename: n.row(i)[..l[i]].as_bstr(), oid: &id });
            i += 1;
        }
        // canonical git order, strictly ascending, by the *model*
        i = 1;
        while i < K {
            kani::assume(base_name_compare(&n.row(i - 1)[..l[i - 1]], m[i - 1], &n.row(i)[..l[i]], m[i]) == Ordering::Less);
            i += 1;
        }
        let q: [u8; 2] = kani::any();
        let ql: usize = kani::any();
        kani::assume(ql >= 1 && ql <= 2 && valid_name(&q));
        let is_dir: bool = kani::any();
        let t = TreeRef { entries };
        let got = t.bisect_entry(q[..ql].as_bstr(), is_dir);
        // linear scan
        let mut found: Option<usize> = None;
        i = 0;
        while i < K {
            if l[i] == ql && n.row(i)[0] == q[0] && (ql == 1 || n.row(i)[1] == q[1]) && s_isdir(m[i]) == is_dir {
                found = Some(i);
            }
            i += 1;
        }
        match (got, found) {
            (Some(e), Some(i)) => {
                assert!(e.mode.0 == m[i], "the entry found is the one a scan finds");
                assert!(e.filename.len() == ql && e.filename[0] == q[0]);
            }
            (None, None) => {}
            (Some(_), None) => assert!(false, "bisect found an entry that a linear scan does not"),
            (None, Some(_)) => assert!(false, "bisect missed an entry that a linear scan finds"),
        }
        kani::cover!(found.is_some() && is_dir, "directory found");
        kani::cover!(K == 1 || (found.is_some() && !is_dir && found != Some(0)), "file found beyond the first slot");
        kani::cover!(found.is_none(), "absent");
        std::mem::forget(t);
    }

    macro_rules! bisect_instances {
        ($($name:ident = $k:literal),*) => {$(
            #[kani::proof]
            #[kani::unwind(6)]
            pub fn $name() { bisect::<$k>() }
        )*};
    }
    bisect_instances!(c03_bisect_1 = 1, c03_bisect_2 = 2, c03_bisect_3 = 3, c03_bisect_4 = 4);
}
