//! Kani harnesses over the real gitoxide crates (path dependencies on /repo).
#![allow(dead_code, unused_imports, clippy::all)]

#[path = "../../common/util.rs"]
pub mod util;

pub mod c01;
pub mod c03;
pub mod c32;
pub mod c43;
