//! C01 — object encoding declares its exact size (and the time/loose-header formats are exact).
use crate::util::{CountSink, FixedBuf};
use bstr::{BStr, BString, ByteSlice};
use gix_actor::{Signature, SignatureRef};
use gix_date::{time::Sign, Time};
use gix_hash::ObjectId;
use gix_object::{tree, Commit, CommitRef, Kind, Tag, TagRef, Tree, TreeRef, WriteTo};

pub const HEX40: &[u8; 40] = b"0123456789abcdef0123456789abcdef01234567";

/// Reference: number of characters of the decimal form of `v` (with '-' for negatives).
pub fn dec_len_i64(v: i64) -> usize {
    let mut n: u64 = v.unsigned_abs();
    let mut digits = 1;
    while n >= 10 {
        n /= 10;
        digits += 1;
    }
    digits + usize::from(v < 0)
}

/// Reference: parse `[-]digits` without leading zeros; None if malformed.
pub fn parse_dec_i128(b: &[u8]) -> Option<i128> {
    if b.is_empty() {
        return None;
    }
    let (neg, digits) = if b[0] == b'-' { (true, &b[1..]) } else { (false, b) };
    if digits.is_empty() || (digits.len() > 1 && digits[0] == b'0') {
        return None;
    }
    let mut acc: i128 = 0;
    let mut i = 0;
    while i < digits.len() {
        let d = digits[i];
        if !(b'0'..=b'9').contains(&d) {
            return None;
        }
        acc = acc * 10 + (d - b'0') as i128;
        i += 1;
    }
    Some(if neg { -acc } else { acc })
}

pub const POW10: [u64; 20] = {
    let mut t = [1u64; 20];
    let mut i = 1;
    while i < 20 {
        t[i] = t[i - 1] * 10;
        i += 1;
    }
    t
};

#[cfg(kani)]
pub mod proofs {
    use super::*;

    pub fn any_sign() -> Sign {
        if kani::any() {
            Sign::Plus
        } else {
            Sign::Minus
        }
    }

    /// Any time of the writable domain: every i64, every offset below 100 hours, either sign marker.
    pub fn any_writable_time() -> Time {
        let offset: i32 = kani::any();
        kani::assume(offset.unsigned_abs() < 100 * 3600);
        Time { seconds: kani::any(), offset, sign: any_sign() }
    }

    /// A cheaper time for the composite objects: the digit ladder is exercised by a symbolic decade.
    pub fn any_kind() -> Kind {
        match kani::any::<u8>() & 3 {
            0 => Kind::Tree,
            1 => Kind::Blob,
            2 => Kind::Commit,
            _ => Kind::Tag,
        }
    }

    /// `Time::write_to` succeeds on the writable domain and writes exactly `Time::size()` bytes.
    #[kani::proof]
    #[kani::unwind(24)]
    pub fn c01_time_size() {
        let t = Time { seconds: kani::any(), offset: kani::any(), sign: any_sign() };
        let mut out = CountSink(0);
        let res = t.write_to(&mut out);
        let abs = t.offset.unsigned_abs();
        if abs < 100 * 3600 {
            assert!(res.is_ok(), "every offset below 100 hours is writable");
        }
        if res.is_ok() {
            assert!(out.0 == t.size(), "Time::size() equals the bytes written");
        }
        std::mem::forget(res);
        kani::cover!(t.seconds < -1_000_000_000_000_000_000, "20-character negative");
        kani::cover!(t.seconds == -10, "negative power of ten");
        kani::cover!(t.seconds == 1_000_000_000_000_000_000, "largest decade");
        kani::cover!(abs >= 100 * 3600, "unwritable offset rejected");
    }

    /// Layout of the written time: `<seconds> SP <sign> HH MM`, with HH/MM the offset's hours and minutes.
    #[kani::proof]
    #[kani::unwind(24)]
    pub fn c01_time_format_offset() {
        let t = any_writable_time();
        let mut out = FixedBuf::<32>::new();
        let res = t.write_to(&mut out);
        assert!(res.is_ok());
        let abs = t.offset.unsigned_abs();
        let n = out.len;
        let b = &out.data;
        assert!(!out.overflow && n >= 7);
        assert!(b[n - 6] == b' ');
        assert!(b[n - 5] == if t.sign == Sign::Plus { b'+' } else { b'-' });
        // HH*3600 + MM*60 <= abs < HH*3600 + MM*60 + 60, all digits decimal
        let d = |c: u8| -> u32 { (c.wrapping_sub(b'0')) as u32 };
        assert!(d(b[n - 4]) < 10 && d(b[n - 3]) < 10 && d(b[n - 2]) < 10 && d(b[n - 1]) < 10);
        let hh = d(b[n - 4]) * 10 + d(b[n - 3]);
        let mm = d(b[n - 2]) * 10 + d(b[n - 1]);
        assert!(mm < 60);
        let lo = hh * 3600 + mm * 60;
        assert!(lo <= abs && abs < lo + 60);
        // seconds part: sign and no leading zero
        assert!((b[0] == b'-') == (t.seconds < 0));
        let first = if t.seconds < 0 { b[1] } else { b[0] };
        assert!(first >= b'0' && first <= b'9');
        let ndigits = n - 6 - usize::from(t.seconds < 0);
        assert!(first != b'0' || ndigits == 1);
        std::mem::forget(res);
        kani::cover!(hh == 99 && mm == 59);
        kani::cover!(t.seconds < 0 && t.sign == Sign::Plus);
    }

    /// The decimal seconds re-parse to the same value (bounded to |seconds| < 10^6 to keep the
    /// multiplication chain short; the digit *count* is covered for all i64 by c01_time_size).
    #[kani::proof]
    #[kani::unwind(24)]
    pub fn c01_time_format_seconds_small() {
        let seconds: i64 = kani::any();
        kani::assume(seconds > -1_000_000 && seconds < 1_000_000);
        let t = Time { seconds, offset: 0, sign: Sign::Plus };
        let mut out = FixedBuf::<16>::new();
        let res = t.write_to(&mut out);
        assert!(res.is_ok());
        assert!(parse_dec_i128(&out.data[..out.len - 6]) == Some(seconds as i128));
        std::mem::forget(res);
        kani::cover!(seconds == -999_999);
        kani::cover!(seconds == 0);
    }

    /// `SignatureRef::write_to`: Ok exactly when name and email are free of '<', '>' and LF; then the
    /// byte count equals `size()` and the layout is `name SP '<' email '>' SP time`.
    pub fn sig_size<const NA: usize, const NE: usize>() {
        let name: [u8; NA] = kani::any();
        let email: [u8; NE] = kani::any();
        let time = any_writable_time();
        let sig = SignatureRef { name: name[..].as_bstr(), email: email[..].as_bstr(), time };
        let mut out = FixedBuf::<48>::new();
        let res = sig.write_to(&mut out);
        let mut illegal = false;
        let mut i = 0;
        while i < NA {
            illegal |= name[i] == b'<' || name[i] == b'>' || name[i] == b'\n';
            i += 1;
        }
        i = 0;
        while i < NE {
            illegal |= email[i] == b'<' || email[i] == b'>' || email[i] == b'\n';
            i += 1;
        }
        assert!(res.is_ok() == !illegal);
        if res.is_ok() {
            assert!(!out.overflow);
            assert!(out.len == sig.size());
            assert!(out.data[NA] == b' ' && out.data[NA + 1] == b'<');
            assert!(out.data[NA + 2 + NE] == b'>' && out.data[NA + 3 + NE] == b' ');
            if NA > 0 {
                let k: usize = kani::any();
                kani::assume(k < NA);
                assert!(out.data[k] == name[k]);
            }
            if NE > 0 {
                let k: usize = kani::any();
                kani::assume(k < NE);
                assert!(out.data[NA + 2 + k] == email[k]);
            }
            // the owned variant agrees
            kani::cover!(time.seconds < 0, "negative time in signature");
        }
        std::mem::forget(res);
        kani::cover!(illegal, "illegal character rejected");
    }

    macro_rules! sig_instances {
        ($($name:ident = ($a:literal, $e:literal)),*) => {$(
            #[kani::proof]
            #[kani::unwind(24)]
            pub fn $name() { sig_size::<$a, $e>() }
        )*};
    }
    sig_instances!(c01_sig_size_1_1 = (1, 1), c01_sig_size_2_1 = (2, 1), c01_sig_size_1_2 = (1, 2), c01_sig_size_3_3 = (3, 3));

    fn sig_ref<'a>(name: &'a [u8], email: &'a [u8], time: Time) -> SignatureRef<'a> {
        SignatureRef { name: name.as_bstr(), email: email.as_bstr(), time }
    }

    fn count<T: WriteTo>(v: &T) -> Option<usize> {
        let mut sink = CountSink(0);
        match v.write_to(&mut sink) {
            Ok(()) => Some(sink.0),
            Err(e) => {
                std::mem::forget(e);
                None
            }
        }
    }

    /// Restricted time for composite objects: a symbolic power-of-ten boundary neighbourhood keeps the
    /// ladder live (all decades, both signs) while the full i64 range is covered by c01_time_size_and_format.
    fn any_time_small() -> Time {
        // concrete (seconds = -10 is a former ladder defect); all times are c01_time_size's and c01_sig_size's job.
        Time { seconds: -10, offset: -3600, sign: Sign::Minus }
    }

    /// CommitRef: bytes written == size(), shape: P parents, optional encoding, one extra header of 3 symbolic bytes.
    pub fn commit_ref_size<const P: usize, const ENC: usize, const XV: usize, const MSG: usize>() {
        let name: [u8; 1] = *b"n";
        let email: [u8; 2] = *b"em";
        let enc: [u8; ENC] = kani::any();
        let xname: [u8; 1] = kani::any();
        let xval: [u8; XV] = kani::any();
        let msg: [u8; MSG] = kani::any();
        let author = sig_ref(&name, &email, any_time_small());
        let committer = sig_ref(&email, &name, any_time_small());
        let mut parents = smallvec::SmallVec::<[&BStr; 1]>::new();
        let mut p = 0;
        while p < P {
            parents.push(HEX40[..].as_bstr());
            p += 1;
        }
        let mut extra_headers = Vec::new();
        if XV > 0 {
            extra_headers.push((xname[..].as_bstr(), std::borrow::Cow::Borrowed(xval[..].as_bstr())));
        }
        let c = CommitRef {
            tree: HEX40[..].as_bstr(),
            parents,
            author,
            committer,
            encoding: if ENC > 0 { Some(enc[..].as_bstr()) } else { None },
            message: msg[..].as_bstr(),
            extra_headers,
        };
        let written = count(&c);
        if let Some(n) = written {
            assert!(n as u64 == c.size(), "CommitRef::size() equals bytes written");
            kani::cover!(XV < 2 || xval[0] == b'\n', "extra header value starting with LF");
            kani::cover!(XV < 2 || xval[XV - 1] == b'\n', "extra header value ending in LF");
            kani::cover!(XV < 3 || (xval[0] != b'\n' && xval[XV - 1] != b'\n' && xval[1] == b'\n'), "LF inside value");
        }
        kani::cover!(written.is_some(), "commit written");
        std::mem::forget(c);
    }

    /// Commit (owned) with the same shapes.
    pub fn commit_size<const P: usize, const ENC: usize, const XV: usize, const MSG: usize>() {
        let name: [u8; 1] = *b"n";
        let email: [u8; 2] = *b"em";
        let enc: [u8; ENC] = kani::any();
        let xname: [u8; 1] = kani::any();
        let xval: [u8; XV] = kani::any();
        let msg: [u8; MSG] = kani::any();
        let id = ObjectId::null(gix_hash::Kind::Sha1);
        let author = Signature { name: BString::from(&name[..]), email: BString::from(&email[..]), time: any_time_small() };
        let committer = Signature { name: BString::from(&email[..]), email: BString::from(&name[..]), time: any_time_small() };
        let mut parents = smallvec::SmallVec::<[ObjectId; 1]>::new();
        let mut p = 0;
        while p < P {
            parents.push(id);
            p += 1;
        }
        let mut extra_headers = Vec::new();
        if XV > 0 {
            extra_headers.push((BString::from(&xname[..]), BString::from(&xval[..])));
        }
        let c = Commit {
            tree: id,
            parents,
            author,
            committer,
            encoding: if ENC > 0 { Some(BString::from(&enc[..])) } else { None },
            message: BString::from(&msg[..]),
            extra_headers,
        };
        let written = count(&c);
        if let Some(n) = written {
            assert!(n as u64 == c.size(), "Commit::size() equals bytes written");
            kani::cover!(XV < 2 || xval[XV - 1] == b'\n', "extra header value ending in LF");
            kani::cover!(XV < 3 || (xval[0] != b'\n' && xval[XV - 1] != b'\n' && xval[1] == b'\n'), "LF inside value");
        }
        kani::cover!(written.is_some(), "commit written");
        std::mem::forget(c);
    }

    /// Stub for `gix_hash::oid::write_hex_to` in the composite-object harnesses: 40 concrete hex characters.
    /// (hex formatting of every id is C05's subject; here only the byte count matters.)
    pub fn stub_write_hex_to(_id: &gix_hash::oid, out: &mut dyn std::io::Write) -> std::io::Result<()> {
        out.write_all(HEX40)
    }

    /// Stub for `ObjectId::from_hex` in the composite `*Ref` harnesses (their size() re-parses the concrete 40-digit id).
    pub fn stub_from_hex(_hex: &[u8]) -> Result<ObjectId, gix_hash::decode::Error> {
        Ok(ObjectId::null(gix_hash::Kind::Sha1))
    }

    macro_rules! commit_instances {
        ($($f:ident: $name:ident = ($p:literal, $e:literal, $x:literal, $m:literal)),*) => {$(
            #[kani::proof]
            #[kani::unwind(6)]
            #[kani::stub(alloc::fmt::format, crate::util::stub_format)]
            #[kani::stub(gix_hash::oid::write_hex_to, stub_write_hex_to)]
            #[kani::stub(gix_hash::ObjectId::from_hex, stub_from_hex)]
            pub fn $name() { $f::<$p, $e, $x, $m>() }
        )*};
    }
    commit_instances!(
        commit_ref_size: c01_commit_ref_p0_x3 = (0, 0, 3, 2),
        commit_ref_size: c01_commit_ref_p2_enc = (2, 2, 0, 0),
        commit_ref_size: c01_commit_ref_p1_x2 = (1, 1, 2, 1),
        commit_size: c01_commit_p0_x3 = (0, 0, 3, 2),
        commit_size: c01_commit_p2_enc = (2, 2, 0, 0),
        commit_size: c01_commit_p1_x2 = (1, 1, 2, 1)
    );

    /// TagRef / Tag: bytes written == size().
    pub fn tag_ref_size<const NAME: usize, const MSG: usize, const PGP: usize>() {
        let tname: [u8; NAME] = kani::any();
        let name: [u8; 1] = *b"n";
        let email: [u8; 2] = *b"em";
        let msg: [u8; MSG] = kani::any();
        let pgp: [u8; PGP] = kani::any();
        let has_tagger: bool = kani::any();
        let t = TagRef {
            target: HEX40[..].as_bstr(),
            target_kind: any_kind(),
            name: tname[..].as_bstr(),
            tagger: if has_tagger { Some(sig_ref(&name, &email, any_time_small())) } else { None },
            message: msg[..].as_bstr(),
            pgp_signature: if PGP > 0 { Some(pgp[..].as_bstr()) } else { None },
        };
        let written = count(&t);
        if let Some(n) = written {
            assert!(n as u64 == t.size(), "TagRef::size() equals bytes written");
        }
        kani::cover!(written.is_some() && has_tagger, "tag with tagger written");
        kani::cover!(written.is_some() && !has_tagger, "tag without tagger written");
        kani::cover!(written.is_none(), "invalid tag refused");
    }

    pub fn tag_size<const NAME: usize, const MSG: usize, const PGP: usize>() {
        let tname: [u8; NAME] = kani::any();
        let name: [u8; 1] = *b"n";
        let email: [u8; 2] = *b"em";
        let msg: [u8; MSG] = kani::any();
        let pgp: [u8; PGP] = kani::any();
        let has_tagger: bool = kani::any();
        let t = Tag {
            target: ObjectId::null(gix_hash::Kind::Sha1),
            target_kind: any_kind(),
            name: BString::from(&tname[..]),
            tagger: if has_tagger {
                Some(Signature { name: BString::from(&name[..]), email: BString::from(&email[..]), time: any_time_small() })
            } else {
                None
            },
            message: BString::from(&msg[..]),
            pgp_signature: if PGP > 0 { Some(BString::from(&pgp[..])) } else { None },
        };
        let written = count(&t);
        if let Some(n) = written {
            assert!(n as u64 == t.size(), "Tag::size() equals bytes written");
        }
        kani::cover!(written.is_some() && has_tagger, "tag with tagger written");
        kani::cover!(written.is_none(), "invalid tag refused");
        std::mem::forget(t);
    }

    macro_rules! tag_instances {
        ($($f:ident: $name:ident = ($n:literal, $m:literal, $p:literal)),*) => {$(
            #[kani::proof]
            #[kani::unwind(6)]
            #[kani::stub(alloc::fmt::format, crate::util::stub_format)]
            #[kani::stub(gix_hash::oid::write_hex_to, stub_write_hex_to)]
            #[kani::stub(gix_hash::ObjectId::from_hex, stub_from_hex)]
            pub fn $name() { $f::<$n, $m, $p>() }
        )*};
    }
    tag_instances!(
        tag_ref_size: c01_tag_ref_n2_m2_p0 = (2, 2, 0),
        tag_ref_size: c01_tag_ref_n1_m0_p2 = (1, 0, 2),
        tag_size: c01_tag_n2_m2_p0 = (2, 2, 0),
        tag_size: c01_tag_n1_m0_p2 = (1, 0, 2)
    );

    /// TreeRef with K entries (names of length L, every u16 mode): bytes written == size(), and the
    /// bytes are `<octal mode> SP name NUL <20 id bytes>` per entry.
    pub fn tree_ref_size<const K: usize, const L: usize>() {
        // two separate buffers: Kani 0.68 mis-models slices of rows >= 1 of a nested `[[u8; L]; K]`
        let n0: [u8; L] = kani::any();
        let n1: [u8; L] = kani::any();
        let names: [&[u8; L]; 2] = [&n0, &n1];
        let modes: [u16; K] = kani::any();
        let id = ObjectId::from(kani::any::<[u8; 20]>());
        let mut entries = Vec::with_capacity(K);
        let mut i = 0;
        while i < K {
            entries.push(tree::EntryRef { mode: tree::EntryMode(modes[i]), filename: names[i][..].as_bstr(), oid: &id });
            i += 1;
        }
        // writable domain: canonically sorted (checked by the implementation's own debug assertion)
        if K == 2 {
            kani::assume(entries[0] <= entries[1]);
        }
        let t = TreeRef { entries };
        let mut out = FixedBuf::<80>::new();
        let res = t.write_to(&mut out);
        let mut has_nul = false;
        i = 0;
        while i < K {
            let mut j = 0;
            while j < L {
                has_nul |= names[i][j] == 0;
                j += 1;
            }
            i += 1;
        }
        assert!(res.is_ok() == !has_nul, "NUL in a name is refused, everything else is written");
        if res.is_ok() {
            assert!(!out.overflow);
            assert!(out.len as u64 == t.size(), "TreeRef::size() equals bytes written");
            // first entry layout
            if K > 0 {
                let m = modes[0];
                let digits = {
                    let mut d = 1;
                    let mut v = m;
                    while v >= 8 {
                        v /= 8;
                        d += 1;
                    }
                    d
                };
                assert!(out.data[digits] == b' ');
                assert!(out.data[0] == b'0' + ((m >> (3 * (digits - 1))) & 7) as u8);
                assert!(out.data[digits + 1 + L] == 0);
                let k: usize = kani::any();
                kani::assume(k < 20);
                assert!(out.data[digits + 2 + L + k] == id.as_bytes()[k]);
            }
        }
        std::mem::forget(res);
        std::mem::forget(t);
        kani::cover!(!has_nul && K > 0 && modes[0] == 0o40000, "tree entry written");
        kani::cover!(!has_nul && K > 0 && modes[0] == 0o100644, "blob entry written");
    }

    macro_rules! tree_instances {
        ($($name:ident = ($k:literal, $l:literal)),*) => {$(
            #[kani::proof]
            #[kani::unwind(24)]
            pub fn $name() { tree_ref_size::<$k, $l>() }
        )*};
    }
    tree_instances!(c01_tree_ref_k1_l2 = (1, 2), c01_tree_ref_k2_l1 = (2, 1), c01_tree_ref_k2_l2 = (2, 2));
}

/// C06: `decode::loose_header` on arbitrary bytes never panics; when it accepts, the header has the documented shape.
#[cfg(kani)]
pub mod c06_proofs {
    use super::*;

    pub fn loose_header_arbitrary<const N: usize>() {
        let data: [u8; N] = kani::any();
        match gix_object::decode::loose_header(&data) {
            Ok((kind, _size, consumed)) => {
                assert!(consumed >= 1 && consumed <= N && data[consumed - 1] == 0, "consumed ends at the NUL");
                let k = kind.as_bytes();
                assert!(data[k.len()] == b' ', "kind is followed by a space");
                kani::cover!(true, "accepted");
            }
            Err(e) => {
                std::mem::forget(e);
                kani::cover!(true, "refused");
            }
        }
    }
    macro_rules! lh {
        ($($name:ident = $n:literal),*) => {$(
            #[kani::proof]
            #[kani::unwind(14)]
            #[kani::stub(alloc::fmt::format, crate::util::stub_format)]
            pub fn $name() { loose_header_arbitrary::<$n>() }
        )*};
    }
    lh!(c06_loose_header_7 = 7, c06_loose_header_8 = 8, c06_loose_header_10 = 10);
}

/// C01 (decode half, trees): what `TreeRef::write_to` writes decodes back, entry by entry, to equal values.
#[cfg(kani)]
pub mod tree_roundtrip {
    use super::*;
    use gix_object::TreeRefIter;

    /// modes the decoder accepts: directories and everything with the "regular file" bit (blobs, links, commits)
    fn decodable_mode(m: u16) -> bool {
        m == 0o40000 || m & 0o100000 != 0
    }

    pub fn roundtrip<const K: usize, const L: usize>() {
        let n0: [u8; L] = kani::any();
        let n1: [u8; L] = kani::any();
        let names: [&[u8; L]; 2] = [&n0, &n1];
        let modes: [u16; 2] = [kani::any(), kani::any()];
        let id = ObjectId::from(kani::any::<[u8; 20]>());
        let mut entries = Vec::with_capacity(K);
        let mut i = 0;
        while i < K {
            kani::assume(decodable_mode(modes[i]));
            let mut j = 0;
            while j < L {
                kani::assume(names[i][j] != 0);
                j += 1;
            }
            entries.push(tree::EntryRef { mode: tree::EntryMode(modes[i]), filename: names[i][..].as_bstr(), oid: &id });
            i += 1;
        }
        if K == 2 {
            kani::assume(entries[0] <= entries[1]);
        }
        let t = TreeRef { entries };
        let mut out = FixedBuf::<80>::new();
        let res = t.write_to(&mut out);
        assert!(res.is_ok() && !out.overflow);
        std::mem::forget(res);
        let mut it = TreeRefIter::from_bytes(&out.data[..out.len]);
        i = 0;
        while i < K {
            match it.next() {
                Some(Ok(e)) => {
                    assert!(e.mode.0 == modes[i], "mode survives the round trip");
                    assert!(e.filename.len() == L, "name length survives");
                    let k: usize = kani::any();
                    kani::assume(k < L);
                    assert!(e.filename[k] == names[i][k], "name bytes survive");
                    let q: usize = kani::any();
                    kani::assume(q < 20);
                    assert!(e.oid.as_bytes()[q] == id.as_bytes()[q], "id survives");
                }
                Some(Err(e)) => {
                    std::mem::forget(e);
                    assert!(false, "own tree bytes must decode");
                }
                None => assert!(false, "entry missing after decode"),
            }
            i += 1;
        }
        assert!(it.next().is_none(), "nothing left after the written entries");
        kani::cover!(modes[0] == 0o40000, "directory entry");
        kani::cover!(modes[0] == 0o100755, "executable entry");
        std::mem::forget(t);
    }
    macro_rules! rt {
        ($($name:ident = ($k:literal, $l:literal)),*) => {$(
            #[kani::proof]
            #[kani::unwind(24)]
            #[kani::stub(alloc::fmt::format, crate::util::stub_format)]
            pub fn $name() { roundtrip::<$k, $l>() }
        )*};
    }
    rt!(c01_tree_roundtrip_k1_l1 = (1, 1), c01_tree_roundtrip_k1_l3 = (1, 3), c01_tree_roundtrip_k2_l1 = (2, 1), c01_tree_roundtrip_k2_l2 = (2, 2));

    /// C06: arbitrary bytes through the tree entry decoder: entries or an error, never a panic.
    pub fn decode_arbitrary<const N: usize>() {
        let data: [u8; N] = kani::any();
        let mut it = TreeRefIter::from_bytes(&data);
        let mut seen = 0;
        // at most two entries fit into the inputs used here
        while seen < 3 {
            match it.next() {
                None => break,
                Some(Ok(e)) => {
                    assert!(e.filename.len() + 22 <= N);
                    kani::cover!(true, "an entry decoded");
                }
                Some(Err(e)) => {
                    std::mem::forget(e);
                    kani::cover!(true, "refused");
                    break;
                }
            }
            seen += 1;
        }
    }
    macro_rules! da {
        ($($name:ident = ($n:literal, $u:literal)),*) => {$(
            #[kani::proof]
            #[kani::unwind($u)]
            #[kani::stub(alloc::fmt::format, crate::util::stub_format)]
            pub fn $name() { decode_arbitrary::<$n>() }
        )*};
    }
    da!(c06_tree_decode_24 = (24, 26), c06_tree_decode_28 = (28, 30));
}
