//! C17 (slice) — the parent-chain walks of gix-ref's `prepare_inner()` terminate and name the right reference.
//! `extracted.rs` is regenerated from the repository's current source on every run.
#![allow(dead_code, unused_imports, clippy::all)]
pub mod extracted;
pub mod c42_extracted;
pub mod c42;
use extracted::{failing_ref_name, propagate_leaf_oid, Edit};

/// The root of `i`'s parent chain.
pub fn model_root(parents: &[Option<usize>], mut i: usize) -> usize {
    let mut steps = 0;
    while let Some(p) = parents[i] {
        i = p;
        steps += 1;
        if steps > parents.len() {
            break;
        }
    }
    i
}

#[cfg(test)]
mod tests {
    use super::*;
    /// Native demonstration used for replay: an edit whose parent is a root (HEAD -> refs/heads/main, lock on main fails).
    #[test]
    fn walk_terminates_for_child_of_root() {
        let updates = vec![
            Edit { parent_index: None, id: 100, leaf_referent_previous_oid: None },
            Edit { parent_index: Some(0), id: 101, leaf_referent_previous_oid: None },
        ];
        let (tx, rx) = std::sync::mpsc::channel();
        std::thread::spawn(move || {
            let r = failing_ref_name(&updates[1], &updates);
            let _ = tx.send(r);
        });
        let got = rx.recv_timeout(std::time::Duration::from_secs(5)).expect("the walk must terminate");
        assert_eq!(got, 100, "the failing edit is reported under the name of the ref the caller edited");
    }
}

#[cfg(kani)]
pub mod proofs {
    use super::*;

    fn any_updates<const L: usize>() -> ([Edit; L], [Option<usize>; L]) {
        // what `extend_with_splits_of_symbolic_refs` builds: a child is appended after its parent
        let mut parents: [Option<usize>; L] = [None; L];
        let mut i = 1;
        while i < L {
            if kani::any() {
                let p: usize = kani::any();
                kani::assume(p < i);
                parents[i] = Some(p);
            }
            i += 1;
        }
        let updates: [Edit; L] = core::array::from_fn(|i| Edit { parent_index: parents[i], id: 100 + i, leaf_referent_previous_oid: None });
        (updates, parents)
    }

    /// After a failed lock: the walk terminates (unwinding assertion) and yields the name of the chain's root.
    pub fn lock_failure_walk<const L: usize>() {
        let (updates, parents) = any_updates::<L>();
        let cid: usize = kani::any();
        kani::assume(cid < L);
        let name = failing_ref_name(&updates[cid], &updates);
        assert!(name == 100 + model_root(&parents, cid), "the lock failure is reported for the edit the caller asked for");
        kani::cover!(L < 2 || parents[cid].is_some(), "a split edit failed to lock");
        kani::cover!(L < 3 || (parents[cid].is_some() && parents[parents[cid].unwrap_or(0)].is_some()), "two levels of symbolic refs");
    }

    /// After a successful lock: every ancestor gets the leaf's previous oid, nothing else is touched, and the walk terminates.
    pub fn propagate_walk<const L: usize>() {
        let (mut updates, parents) = any_updates::<L>();
        let cid: usize = kani::any();
        kani::assume(cid < L);
        kani::assume(parents[cid].is_some());
        let oid: u8 = kani::any();
        propagate_leaf_oid(oid, parents[cid].unwrap_or(0), &mut updates);
        // ancestors of cid
        let k: usize = kani::any();
        kani::assume(k < L);
        let mut is_ancestor = false;
        let mut cur = parents[cid];
        let mut steps = 0;
        while let Some(p) = cur {
            is_ancestor |= p == k;
            cur = parents[p];
            steps += 1;
            if steps > L {
                break;
            }
        }
        assert!((updates[k].leaf_referent_previous_oid == Some(oid)) == is_ancestor, "exactly the ancestors receive the leaf's previous oid");
        kani::cover!(is_ancestor && parents[k].is_some(), "an inner ancestor");
    }

    macro_rules! inst {
        ($($f:ident: $name:ident = ($l:literal, $u:literal)),* $(,)?) => {$(
            #[kani::proof]
            #[kani::unwind($u)]
            pub fn $name() { $f::<$l>() }
        )*};
    }
    inst!(
        lock_failure_walk: c17_lock_failure_walk_1 = (1, 3),
        lock_failure_walk: c17_lock_failure_walk_2 = (2, 4),
        lock_failure_walk: c17_lock_failure_walk_3 = (3, 5),
        lock_failure_walk: c17_lock_failure_walk_4 = (4, 6),
        propagate_walk: c17_propagate_walk_3 = (3, 5),
        propagate_walk: c17_propagate_walk_4 = (4, 6),
    );
}
