//! C42 (slice) — gix-fs' path stack stays consistent across failures. `c42_extracted.rs` holds the verbatim text of
//! gix-fs/src/stack.rs compiled against a shim of the few `std::path` items it uses.
use crate::c42_extracted::stack::Delegate;
use crate::c42_extracted::std::path::{Path, MAX};
use crate::c42_extracted::Stack;

/// Counts notifications and rejects `push` / `push_directory` at chosen call numbers (0 = never).
pub struct Recorder {
    pub pushes: u32,
    pub dir_pushes: u32,
    pub dir_pops: u32,
    pub calls_push_directory: u32,
    pub fail_push_at: u32,
    pub fail_push_directory_at: u32,
}
impl Recorder {
    pub fn new(fail_push_at: u32, fail_push_directory_at: u32) -> Self {
        Recorder { pushes: 0, dir_pushes: 0, dir_pops: 0, calls_push_directory: 0, fail_push_at, fail_push_directory_at }
    }
    /// directories the delegate currently believes to be open
    pub fn open(&self) -> u32 {
        self.dir_pushes - self.dir_pops
    }
}
impl Delegate for Recorder {
    fn push_directory(&mut self, _stack: &Stack) -> crate::c42_extracted::std::io::Result<()> {
        self.calls_push_directory += 1;
        if self.calls_push_directory == self.fail_push_directory_at {
            return Err(crate::c42_extracted::std::io::Error);
        }
        self.dir_pushes += 1;
        Ok(())
    }
    fn push(&mut self, _is_last_component: bool, _stack: &Stack) -> crate::c42_extracted::std::io::Result<()> {
        self.pushes += 1;
        if self.pushes == self.fail_push_at {
            return Err(crate::c42_extracted::std::io::Error);
        }
        Ok(())
    }
    fn pop_directory(&mut self) {
        self.dir_pops += 1;
    }
}

pub fn path_of(comps: &[u8]) -> Path {
    let mut p = Path::empty();
    let mut i = 0;
    while i < comps.len() {
        p.comps[i] = comps[i];
        i += 1;
    }
    p.len = comps.len();
    p
}

#[cfg(test)]
mod tests {
    use super::*;
    /// Native demonstration used as replay: "a/b" with `push` rejected for `a`, then "c".
    #[test]
    #[ignore = "demonstrates known finding C42-F10: fails while the finding exists; run by the check as replay"]
    fn balanced_after_rejected_directory_push() {
        let mut stack = Stack::new(path_of(&[]));
        let mut d = Recorder::new(1, 0);
        assert!(stack.make_relative_path_current(&path_of(&[1, 2]), &mut d).is_err());
        assert!(stack.make_relative_path_current(&path_of(&[3]), &mut d).is_ok());
        assert_eq!(*stack.current_relative(), path_of(&[3]));
        assert_eq!(d.open(), 1, "only the root directory is open for the single-component path `c`");
    }
}

#[cfg(test)]
mod replay_tests {
    use super::*;

    fn all_paths() -> Vec<Path> {
        let mut v = vec![];
        for len in 1..=3usize {
            for bits in 0..(1u8 << len) {
                let comps: Vec<u8> = (0..len).map(|i| 1 + ((bits >> i) & 1)).collect();
                v.push(path_of(&comps));
            }
        }
        v
    }
    fn proper_prefix(a: &Path, b: &Path) -> bool {
        a.len < b.len && (0..a.len).all(|k| a.comps[k] == b.comps[k])
    }

    /// Native confirmation device for counterexamples of `c42_rejected_2_paths` (used when Kani cannot build a playback
    /// test): replays every 2-call history of that harness' input class and fails on the first inconsistent path.
    #[test]
    #[ignore = "replay device for c42_rejected_2_paths; passes on code where the property holds"]
    fn paths_consistent_in_all_small_rejection_histories() {
        let paths = all_paths();
        for p1 in &paths {
            for p2 in &paths {
                if proper_prefix(p1, p2) || proper_prefix(p2, p1) {
                    continue;
                }
                for fp in 0..=7u32 {
                    for fd in 0..=7u32 {
                        if fp == 0 && fd == 0 {
                            continue;
                        }
                        let mut stack = Stack::new(Path::empty());
                        let mut d = Recorder::new(fp, fd);
                        for rel in [p1, p2] {
                            let ok = stack.make_relative_path_current(rel, &mut d).is_ok();
                            assert!(*stack.current() == *stack.current_relative(), "current() != root + current_relative() (paths {p1:?} {p2:?}, fp {fp}, fd {fd})");
                            if ok {
                                assert!(*stack.current_relative() == *rel, "current_relative() is not the last path (paths {p1:?} {p2:?}, fp {fp}, fd {fd})");
                            }
                        }
                    }
                }
            }
        }
    }
}

#[cfg(kani)]
pub mod proofs {
    use super::*;

    /// An arbitrary relative path of 1..=3 normal components over the names {1, 2}.
    fn any_rel() -> Path {
        let len: usize = kani::any();
        kani::assume(len >= 1 && len <= 3);
        let mut p = Path::empty();
        let mut i = 0;
        while i < 3 {
            if i < len {
                let c: u8 = kani::any();
                kani::assume(c == 1 || c == 2);
                p.comps[i] = c;
            }
            i += 1;
        }
        p.len = len;
        p
    }

    fn check_after_ok(stack: &Stack, d: &Recorder, rel: &Path, check_paths: bool, check_balance: bool) {
        if check_paths {
            assert!(*stack.current_relative() == *rel, "current_relative() is the last path");
            assert!(*stack.current() == *rel, "current() is root joined with the last path (empty root)");
        }
        if check_balance {
            // the root plus every directory component of the current path (its last component is a file) is open
            assert!(d.open() == rel.len as u32, "push_directory/pop_directory balanced: one open directory per directory of the current path");
        }
    }

    /// Histories of CALLS calls with arbitrary paths; the delegate rejects at most one `push` and at most one
    /// `push_directory` at symbolic call numbers. After every successful call the stack and the notifications are consistent.
    pub fn history<const CALLS: usize>(allow_push_failure: bool, allow_dir_failure: bool, check_paths: bool, check_balance: bool) {
        let fp: u32 = kani::any();
        let fd: u32 = kani::any();
        kani::assume(fp <= 7 && fd <= 7);
        if !allow_push_failure {
            kani::assume(fp == 0);
        }
        if !allow_dir_failure {
            kani::assume(fd == 0);
        }
        if allow_push_failure || allow_dir_failure {
            kani::assume(fp != 0 || fd != 0);
        }
        // the documented precondition: paths are terminal - no path of the history is a proper prefix of another
        // (a name cannot be a file in one call and a directory in the next)
        let rels: [Path; CALLS] = core::array::from_fn(|_| any_rel());
        let mut i = 0;
        while i < CALLS {
            let mut j = 0;
            while j < CALLS {
                if i != j {
                    kani::assume(!is_proper_prefix(&rels[i], &rels[j]));
                }
                j += 1;
            }
            i += 1;
        }
        let mut stack = Stack::new(Path::empty());
        let mut d = Recorder::new(fp, fd);
        let mut any_failed = false;
        let mut n = 0;
        while n < CALLS {
            let rel = rels[n];
            match stack.make_relative_path_current(&rel, &mut d) {
                Ok(()) => {
                    check_after_ok(&stack, &d, &rel, check_paths, check_balance);
                    assert!(*stack.current() == *stack.current_relative(), "current() is always root joined with current_relative()");
                    kani::cover!(!(allow_push_failure || allow_dir_failure) || (any_failed && n + 1 == CALLS), "a successful call after a rejected one");
                }
                Err(_) => {
                    any_failed = true;
                    if check_paths {
                        assert!(*stack.current() == *stack.current_relative(), "also after a rejected push current() is root joined with current_relative()");
                    }
                }
            }
            n += 1;
        }
        kani::cover!(allow_push_failure || allow_dir_failure || !any_failed, "no rejection");
    }

    fn is_proper_prefix(a: &Path, b: &Path) -> bool {
        if a.len >= b.len {
            return false;
        }
        let mut k = 0;
        let mut same = true;
        while k < 3 {
            if k < a.len {
                same &= a.comps[k] == b.comps[k];
            }
            k += 1;
        }
        same
    }

    #[kani::proof]
    #[kani::unwind(6)]
    pub fn c42_history_1_nofail() {
        history::<1>(false, false, true, true)
    }
    #[kani::proof]
    #[kani::unwind(6)]
    pub fn c42_history_2_nofail() {
        history::<2>(false, false, true, true)
    }
    #[kani::proof]
    #[kani::unwind(6)]
    pub fn c42_history_3_nofail() {
        history::<3>(false, false, true, true)
    }
    /// Histories in which the delegate rejects a `push` and/or a `push_directory`: the *paths* stay consistent
    /// (the notification balance in this class is known finding C42-F10, checked by the next harness).
    #[kani::proof]
    #[kani::unwind(6)]
    pub fn c42_rejected_2_paths() {
        history::<2>(true, true, true, false)
    }
    /// Known finding C42-F10: the notification balance in histories with a rejected `push` / `push_directory`.
    #[kani::proof]
    #[kani::unwind(6)]
    pub fn c42_known_rejected_2() {
        history::<2>(true, true, false, true)
    }
}
