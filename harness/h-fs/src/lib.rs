//! C42 — the worktree path stack stays consistent across failures.
#![allow(dead_code, unused_imports, clippy::all)]
use gix_fs::stack::Delegate;
use gix_fs::Stack;
use std::path::{Path, PathBuf};

/// A delegate that counts notifications and rejects `push` / `push_directory` at chosen call numbers.
pub struct Recorder {
    pub pushes: u32,
    pub dir_pushes: u32,
    pub dir_pops: u32,
    pub fail_push_at: u32,
    pub fail_push_directory_at: u32,
}

impl Delegate for Recorder {
    fn push_directory(&mut self, _stack: &Stack) -> std::io::Result<()> {
        self.dir_pushes += 1;
        if self.dir_pushes == self.fail_push_directory_at {
            // a rejected directory is not entered: the notification did not take effect
            self.dir_pushes -= 1;
            return Err(std::io::ErrorKind::Other.into());
        }
        Ok(())
    }
    fn push(&mut self, _is_last_component: bool, _stack: &Stack) -> std::io::Result<()> {
        self.pushes += 1;
        if self.pushes == self.fail_push_at {
            return Err(std::io::ErrorKind::Other.into());
        }
        Ok(())
    }
    fn pop_directory(&mut self) {
        self.dir_pops += 1;
    }
}

/// Number of directories that are "open" for a current relative path: the root plus every directory component.
pub fn open_dirs(current_relative: &str, is_dir: bool) -> u32 {
    if current_relative.is_empty() {
        return 1;
    }
    let comps = current_relative.split('/').count() as u32;
    1 + if is_dir { comps } else { comps - 1 }
}

#[cfg(kani)]
pub mod proofs {
    use super::*;

    /// Two paths made current one after the other; the delegate rejects one `push` (symbolic call number, or none).
    pub fn seq2(p1: &str, p2: &str) {
        let mut stack = Stack::new(PathBuf::from("/r"));
        let fail_at: u32 = kani::any();
        kani::assume(fail_at <= 6);
        let mut d = Recorder { pushes: 0, dir_pushes: 0, dir_pops: 0, fail_push_at: fail_at, fail_push_directory_at: 0 };
        let r1 = stack.make_relative_path_current(Path::new(p1), &mut d);
        let ok1 = r1.is_ok();
        std::mem::forget(r1);
        if ok1 {
            assert!(stack.current() == Path::new("/r").join(p1), "current() is root joined with the path");
            assert!(stack.current_relative() == Path::new(p1));
            assert!(d.dir_pushes - d.dir_pops == open_dirs(p1, false), "one open directory notification per directory of the current path");
        }
        let r2 = stack.make_relative_path_current(Path::new(p2), &mut d);
        let ok2 = r2.is_ok();
        std::mem::forget(r2);
        if ok2 {
            assert!(stack.current() == Path::new("/r").join(p2), "current() is root joined with the last path, also after a rejected push");
            assert!(stack.current_relative() == Path::new(p2));
            assert!(d.dir_pushes - d.dir_pops == open_dirs(p2, false), "push_directory/pop_directory stay balanced across a rejected push");
        }
        kani::cover!(!ok1 && ok2, "first rejected, second accepted");
        kani::cover!(ok1 && ok2, "both accepted");
        std::mem::forget(stack);
    }

    pub fn stub_format(_args: std::fmt::Arguments<'_>) -> String {
        String::new()
    }

    #[kani::proof]
    #[kani::unwind(8)]
    #[kani::stub(alloc::fmt::format, stub_format)]
    pub fn c42_seq_ab_c() {
        seq2("a/b", "c")
    }
}

#[cfg(test)]
mod tests {
    use super::*;
    /// Native observation (not a solver check): a rejected `push` of a directory component leaves the notifications unbalanced.
    #[test]
    fn rejected_directory_push_observation() {
        let mut stack = Stack::new(PathBuf::from("/r"));
        let mut d = Recorder { pushes: 0, dir_pushes: 0, dir_pops: 0, fail_push_at: 1, fail_push_directory_at: 0 };
        assert!(stack.make_relative_path_current(Path::new("a/b"), &mut d).is_err());
        assert!(stack.make_relative_path_current(Path::new("c"), &mut d).is_ok());
        println!("open per model: {}, push_directory - pop_directory: {}", open_dirs("c", false), d.dir_pushes - d.dir_pops);
        assert_eq!(stack.current(), Path::new("/r/c"));
    }
}
